#!/usr/bin/env python3
"""Regenerates /verif/MANIFEST.json. Edit the tables below, never MANIFEST.json by hand."""
import json, os, subprocess, sys
HERE = os.path.dirname(os.path.dirname(os.path.abspath(__file__)))

# property -> (category, technique, level text, level note, design ref)
P = {
 "C01": ("model_checking", "explicit-state BFS (own + stateright) of the real ScancodeSet2 / Keyboard::add_byte in lock-step with a 6-context reference automaton over all 256 bytes; exhaustive byte-stream trees (3 / 4 bytes)",
         "Closed reachability search of the product (real decoder x R-AUTO2): every byte from every reachable state is compared with the standard table, so the verdict covers byte streams of any length; confirmed hook-free by all streams of <=3 (quick) / <=4 (thorough, 2^32) bytes.",
         "Trusted: the hand-written Set 2 table and prefix grammar in harness/src/refs/scancodes.rs (README table, NumpadEnter row corrected to E0 5A). State identity = derived PartialEq (hook H2). F0 00 / F0 AA left loose.", "DESIGN.md 7/C01"),
 "C02": ("model_checking", "explicit-state BFS (own + stateright) of the real ScancodeSet1 / Keyboard::add_byte in lock-step with a 3-context reference automaton over all 256 bytes; exhaustive byte-stream trees (3 / 4 bytes)",
         "Closed reachability search of the product (real decoder x R-AUTO1), 3 x 256 transitions, valid for streams of any length; hook-free confirmation on all streams of <=3 / <=4 bytes.",
         "Trusted: the hand-written Set 1 table (README table, Apps row corrected to E0 5D; JIS keys unprefixed) and grammar in harness/src/refs/scancodes.rs.", "DESIGN.md 7/C02"),
 "C07": ("model_checking", "reachable-graph extraction of both real decoders by BFS (own + stateright), bisimulation check of every post-event/post-error state against new(), longest no-event chain; exhaustive differential stream trees with fresh-decoder shadows",
         "Every edge of the real decoders' reachable graphs that reports an event or error must end in a state no byte sequence can distinguish from new(); prefix chains bounded by 2 (Set 2) / 1 (Set 1). Hook-free confirmation: all streams <=3 / <=4 bytes against shadows restarted after each terminal result.",
         "State identity via hook H2 (derived PartialEq/Debug over all fields); no reference table involved.", "DESIGN.md 7/C07"),
 "C19": ("exploration", "exhaustive enumeration of both sets x 3 prefix tables x every code, make and break form, on the real decoders (self-referential pairing/injectivity oracle)",
         "All complete key sequences of both sets are enumerated on fresh real decoders (bare and through Keyboard::add_byte); no reference table.",
         "None beyond the sequence grammar ([E0|E1][F0]code; Set 1 bit 7 = break).", "DESIGN.md 7/C19"),
}
NOT_YET = {}  # id -> reason (filled below for everything not in P)

ENGINES = [
 {"name": "reach", "path": "harness/src/explore.rs", "serves_properties": ["C01","C02","C04","C06","C07","C13","C14"], "kind_free_text": "Engine A: explicit-state BFS whose transition function is the real code (state = clone of the real object + reference-model state); own BFS with parent pointers plus stateright 0.31 BFS as independent cross-check of state counts and verdicts"},
 {"name": "sweep", "path": "harness/src/props", "serves_properties": ["C01","C02","C03","C05","C06","C07","C08","C09","C10","C11","C12","C15","C16","C17","C18","C19"], "kind_free_text": "Engine B: parallel exhaustive enumeration of transition relations, bounded stream trees with prefix sharing, and pure-table sweeps"},
 {"name": "probe", "path": "probe_c20", "serves_properties": ["C20"], "kind_free_text": "Engine C: no_std const/static probe crate and runtime twin, built without hooks; rustc is the judge"},
]

def main():
    props = [json.loads(l)["id"] for l in open(os.path.join(HERE, "properties.jsonl"))]
    checks = []
    na = []
    for pid in props:
        if pid in P:
            cat, tech, text, note, ref = P[pid]
            checks.append({
                "property_id": pid,
                "quick_cmd": f"./vcheck {pid} quick",
                "thorough_cmd": f"./vcheck {pid} thorough",
                "evidence_file": f"/verif/evidence/{pid}.json",
                "replay_cmd_template": "./vcheck replay {path}",
                "engine": "probe" if pid == "C20" else "reach+sweep",
                "level_claimed": {"category": cat, "text": text, "design_ref": ref},
                "level_note": note,
                "technique": tech,
            })
        else:
            na.append({"property_id": pid, "reason": NOT_YET.get(pid, "check not built yet in this revision of /verif (planned: see DESIGN.md section 7); nothing is claimed for it")})
    hooks_commits = subprocess.run(["git","-C","/repo","log","--format=%H %s","--grep=^verif hook"], capture_output=True, text=True).stdout.strip().splitlines()
    m = {
        "version": 1,
        "setup_cmd": "./vcheck build",
        "hooks": {
            "guard": "cargo feature `verif-hooks` (pc-keyboard/Cargo.toml [features])",
            "enable": "the harness depends on pc-keyboard by path with features=[\"verif-hooks\"] (harness/Cargo.toml); every ./vcheck run rebuilds from /repo's working tree",
            "baseline_off_cmd": "cd /repo && cargo test --workspace --no-fail-fast --offline",
            "source_commits": [c.split()[0] for c in hooks_commits],
            "add_only": True,
        },
        "engines": ENGINES,
        "checks": checks,
        "not_applicable": na,
        "notes": "Exit codes: 0 held / 1 violation / 2 machinery failure. Known findings: /verif/KNOWN_FINDINGS.txt. Replays: /verif/replays/*.json (./vcheck replay <file>). All explorations are exhaustive within the stated bounds; no sampling anywhere.",
    }
    json.dump(m, open(os.path.join(HERE, "MANIFEST.json"), "w"), indent=1)
    print("checks:", [c["property_id"] for c in checks], "not_applicable:", [n["property_id"] for n in na])

main()
