#!/usr/bin/env python3
"""Regenerates /verif/MANIFEST.json. Edit the tables below, never MANIFEST.json by hand."""
import json, os, subprocess, sys
HERE = os.path.dirname(os.path.dirname(os.path.abspath(__file__)))

# property -> (category, technique, level text, level note, design ref)
P = {
 "C01": ("model_checking", "explicit-state BFS (own + stateright) of the real ScancodeSet2 / Keyboard::add_byte in lock-step with a 6-context reference automaton over all 256 bytes; exhaustive byte-stream trees (3 / 4 bytes); pumped streams (every word of <=2/<=3 bytes repeated 300/12 times)",
         "Closed reachability search of the product (real decoder x R-AUTO2): every byte from every reachable state is compared with the standard table, so the verdict covers byte streams of any length; confirmed hook-free by all streams of <=3 (quick) / <=4 (thorough, 2^32) bytes.",
         "Trusted: the hand-written Set 2 table and prefix grammar in harness/src/refs/scancodes.rs (README table, NumpadEnter row corrected to E0 5A). State identity = derived PartialEq (hook H2). F0 00 / F0 AA left loose.", "DESIGN.md 7/C01"),
 "C02": ("model_checking", "explicit-state BFS (own + stateright) of the real ScancodeSet1 / Keyboard::add_byte in lock-step with a 3-context reference automaton over all 256 bytes; exhaustive byte-stream trees (3 / 4 bytes); pumped streams (every word of <=2/<=3 bytes repeated 300/12 times)",
         "Closed reachability search of the product (real decoder x R-AUTO1), 3 x 256 transitions, valid for streams of any length; hook-free confirmation on all streams of <=3 / <=4 bytes.",
         "Trusted: the hand-written Set 1 table (README table, Apps row corrected to E0 5D; JIS keys unprefixed) and grammar in harness/src/refs/scancodes.rs.", "DESIGN.md 7/C02"),
 "C07": ("model_checking", "reachable-graph extraction of both real decoders by BFS (own + stateright), bisimulation check of every post-event/post-error state against new(), longest no-event chain; exhaustive differential stream trees with fresh-decoder shadows; pumped streams with a self-referential repetition oracle",
         "Every edge of the real decoders' reachable graphs that reports an event or error must end in a state no byte sequence can distinguish from new(); prefix chains bounded by 2 (Set 2) / 1 (Set 1). Hook-free confirmation: all streams <=3 / <=4 bytes against shadows restarted after each terminal result.",
         "State identity via hook H2 (derived PartialEq/Debug over all fields); no reference table involved.", "DESIGN.md 7/C07"),
 "C19": ("exploration", "exhaustive enumeration of both sets x 3 prefix tables x every code, make and break form, on the real decoders (self-referential pairing/injectivity oracle)",
         "All complete key sequences of both sets are enumerated on fresh real decoders (bare and through Keyboard::add_byte); no reference table.",
         "None beyond the sequence grammar ([E0|E1][F0]code; Set 1 bit 7 = break).", "DESIGN.md 7/C19"),
 "C04": ("model_checking", "explicit-state BFS (own + stateright) of the real Keyboard<Echo,_>/EventDecoder<Echo> in lock-step with the modifier reference model over 124 keys x 3 key states + mode switches; EventDecoder closure also over change_layout; exhaustive event-history trees (depth 4 / 5) against the history form of the reference; pumped event words (all words of <=2 events x 200)",
         "Closed reachability search of (real decoder x R-MODS): all 512 x 2 reference states, 383k transitions per device; get_modifiers() and the modifiers shown to a recording layout compared after every transition - covers event histories of any length.",
         "Trusted: R-MODS (events.rs rmods_step / rmods_history), written from the property text. State identity = derived PartialEq (hook H3).", "DESIGN.md 7/C04"),
 "C05": ("fault_enumeration", "exhaustive enumeration of all 2048 11-bit words through Ps2Decoder::add_word and Keyboard::add_word plus every 1-bit and 2-bit corruption of every valid frame (whole-word and bit-serial), and every frame followed bit-serially by every valid frame on one decoder (524288 fault sequences), against a reference frame check",
         "The input space (2048 frames) and the fault space (256 x 66 corruptions) are enumerated completely.",
         "Trusted: R-FRAME (frame.rs r_frame) from the add_word documentation. Words above bit 10 are out of scope (C08 checks they do not panic).", "DESIGN.md 7/C05"),
 "C06": ("model_checking", "explicit-state BFS (own + stateright) of the real Ps2Decoder x shadow frame over {bit 0, bit 1, clear} with bisimulation check of every post-frame/post-clear state against new(); exhaustive 2-frame (2^22) / 3-frame (2^33) bit-stream trees; clear() from every partial prefix x every frame; pumped frames (each of 2048 frames x 300, with and without partial frame + clear between)",
         "All 2047 partial-frame states x 3 actions, closed; the 11th-bit result is compared with the real whole-word decoder and with R-FRAME; hook-free confirmation over all ordered frame pairs (quick) / triples (thorough).",
         "State identity via hook H3; R-FRAME as second opinion.", "DESIGN.md 7/C06"),
 "C14": ("model_checking", "explicit-state BFS (own + stateright) of the real EventDecoder/Keyboard with a recording layout (echoes key, modifiers, mode, layout tag) in lock-step with R-MODS, incl. set_ctrl_handling and change_layout actions; real EventDecoder<AnyLayout> over all 10x10 layout switches x 512 modifier states by replay; two-press sweep (every key, every sequence of <=2 of 22 modifier/mode/layout actions between two presses, from all 1024/2048 states); pumped event words",
         "Closed search over 2048 (EventDecoder, two layout tags) / 1024 (Keyboard) states x 376/374 actions: return value of every event in every reachable state is compared with what the statement prescribes.",
         "Trusted: R-MODS supplies the 'current modifier state'. State identity = hook H3.", "DESIGN.md 7/C14"),
 "C18": ("model_checking", "exhaustive relation sweep of the real Keyboard against a composite of three real stages (result + per-stage state via hook H4) over the product state space at deviation bound 1 (quick) / full product 2047x6x1024 and 2047x3x1024 states x 2681 operations (thorough); closed BFS (own + stateright) of (Keyboard x composite) over a reduced alphabet; hidden (non-stage) state changes decided by a behavioural probe",
         "Every (product state, operation) transition is executed on the real Keyboard and on the reference wiring; equality of results and of all three stage states proves isolation; closure under reachability makes it a statement about all operation sequences. The BFS over a reduced alphabet additionally covers hidden cross-stage state.",
         "Trusted: apply_ref (compose.rs), ~20 lines transcribing the statement. The stages themselves are the real code. Layout = recording layout Echo.", "DESIGN.md 7/C18"),
 "C03": ("exploration", "exhaustive table sweep: 30 layout objects x main-block character keys x every level-selecting modifier value (of 512) x 2 modes against hand-written national layout tables; end-to-end through real scancodes -> Keyboard<real layout> in all 512 reachable modifier states",
         "The domain of the pure layout functions is enumerated completely for the states the property constrains (CapsLock off, Ctrl not mapped, Shift+AltGr free).",
         "Trusted: R-LAYOUT (harness/src/refs/layouts.rs), written from KBDUS/KBDUK/KBDGR/KBDFR/KBDNO/KBDFI/KBD106/KBDDV, colemak.com, Programmer Dvorak; variant cells are sets; Colemak/DVP AltGr cells are unjudged.", "DESIGN.md 7/C03"),
 "C08": ("exploration", "exhaustive enumeration of every input x every reachable state of every component (graphs from explicit-state BFS; Keyboard product at deviation bound 1 / full product) plus guarded 22-bit / 3-byte stream trees and pumped streams (words x300, frames x300), in a journalling child process under catch_unwind, built with overflow checks and debug assertions; abort and hang detection by the parent",
         "Oracle is only 'returned normally'; reachable states come from the explorations so unreachable unimplemented!() arms raise no alarm.",
         "Assumes the checked build profile (harness/Cargo.toml). Watchdog 300 s (quick) / 1800 s (thorough) per journal line.", "DESIGN.md 7/C08"),
 "C09": ("exploration", "exhaustive table sweep 30 layout objects x 124 keys x 512 modifier values x 2 modes with a self-referential oracle (control code of the layout's own unmodified letter; mode/Ctrl change nothing elsewhere); thorough adds EventDecoder with set_ctrl_handling",
         "Complete enumeration of the layout functions' domain; no reference table.", "Ctrl+Alt in mapping mode unconstrained; in Ignore mode Ctrl+left Alt legitimately forms AltGr.", "DESIGN.md 7/C09"),
 "C10": ("exploration", "exhaustive table sweep 30 layout objects x 124 keys x 256 CapsLock-off/on twin pairs x 2 modes, self-referential (letter key = lowercase whose Shift form is its uppercase); plus real CapsLock key events through EventDecoder",
         "Complete enumeration; no reference table.", "Letter-key definition admits national letters and excludes ß/?, ù/%, é/2.", "DESIGN.md 7/C10"),
 "C11": ("exploration", "exhaustive table sweep 30 layout objects x 124 keys x 2 modes x 512 modifier values partitioned into the 16/32 abstract classes (class-mates must agree); five public predicates on all 512 values against boolean formulas",
         "Complete enumeration.", "Trusted: R-PRED (common.rs r_*), five one-line formulas from the property text.", "DESIGN.md 7/C11"),
 "C12": ("exploration", "exhaustive search over 30 layout objects x 2 Ctrl modes x 124 keys x 3 plain levels for a witness of each of the 95 printable ASCII characters; thorough re-types every character through EventDecoder key events",
         "Existence is decided by complete enumeration of the search space.", "Levels: no modifier, left Shift, right Alt (NumLock in its initial state).", "DESIGN.md 7/C12"),
 "C13": ("model_checking", "exhaustive enumeration of 3 prefix tables x 130 translatable Set 2 codes x {make,break} through both real decoders under the i8042 translation table, and conversely all Set 1 codes against their pre-images; explicit-state BFS (own + stateright) of a pair of real Keyboards fed the Set 2 stream and its translation (242 key sequences, 218 glitch variants with a stray bit + clear() before the last byte, ~320 uncompared noise sequences), over all 512 modifier states",
         "Table level: complete. End-to-end: closed search of the pair system over press/release of every key expressible in both sets (quick: 2 layouts x 1 mode; thorough: 10 layouts x 2 modes).",
         "Trusted: R-8042 (refs/scancodes.rs XLATE), the published controller translation table.", "DESIGN.md 7/C13"),
 "C15": ("exploration", "exhaustive table sweep 30 layout objects x 23 keys x 512 modifier values x 2 modes against the numpad/editing reference",
         "Complete enumeration.", "Trusted: R-NUMPAD / R-EDIT (refs/layouts.rs); decimal separator: '.'; ',' for NO and FI/SE; either for DE and FR; Numpad5 with NumLock off: '5' or its own raw key.", "DESIGN.md 7/C15"),
 "C16": ("exploration", "exhaustive table sweep 30 layout objects x 124 keys x 512 modifier values x 2 modes: the 52 character-less keys must be RawKey(self); any raw output must be the key itself or its NumLock-off alias",
         "Complete enumeration.", "Trusted: R-RAW52 (refs/layouts.rs).", "DESIGN.md 7/C16"),
 "C17": ("exploration", "exhaustive differential sweep AnyLayout / &AnyLayout vs the wrapped layout on 10 x 2 x 124 x 512 x 2 points; change_layout over all 10x10 ordered pairs on real EventDecoder<AnyLayout> and EventDecoder<&AnyLayout>; pairwise distinguishability of the ten tables measured",
         "Complete enumeration; differential, no table.", "None.", "DESIGN.md 7/C17"),
 "C20": ("other", "exhaustive enumeration of a finite configuration family (120 Keyboard configurations x const + static items, stage constructors, const accessors, a const-evaluated 512-entry predicate table, 58 Send+Sync assertions) in a #![no_std] probe crate built without hooks, judged by rustc against a runtime twin; const-built vs runtime-built objects compared on the exhaustive single-step alphabet",
         "C20 has no state and no histories: the only thing to enumerate is a finite family of configurations and the judge is the compiler. This is the degenerate end of the model-checking family (configuration enumeration) and is labelled 'other'.",
         "Trusted: rustc's type/const checker; the configuration list in probe_c20/gen.py.", "DESIGN.md 7/C20"),
}
# exploration shapes added later (seeded rounds 4 and 5), appended to the technique text
EXTRA = {
 "C01": "; after-prior sweeps: every complete sequence of <=3 bytes (two chained in the thorough tier), then every continuation of <=2 bytes, against R-AUTO2",
 "C02": "; after-prior sweeps: every complete sequence of <=2 bytes (two chained in the thorough tier), then every continuation of <=2 bytes, against R-AUTO1",
 "C07": "; after-prior sweeps: every complete sequence (two chained in the thorough tier), then every continuation of <=2 bytes, against a fresh real decoder",
 "C03": "; AltGr level with CapsLock on and, on non-letter keys, with Ctrl held in mapping mode; AltGr-level consistency with the plain AltGr state; end-to-end also with Set 2 status bytes before the key, bit-serially after a glitch + clear(), and from Set 1; two-press decoder family with key-then-modifier pairs",
 "C05": "; frame chains: 2048 first frames x representative middle frames (1-2) x 2048 last frames through one bit-serial decoder",
 "C06": "; add_word calls interleaved with the bits of a frame in the BFS; frame chains: 2048 first frames x representative middle frames (1-2) x 2048 last frames through one decoder",
 "C12": "; every character re-typed through EventDecoder after each of 2022 chord histories (0-2 modifiers held, a key tapped, all released) per layout and Ctrl mode",
 "C13": "; every ordered pair of key sequences also through add_word and add_bit",
 "C14": "; consultation-counting layout: exactly one layout consultation per ordinary press, none otherwise",
 "C15": "; two-press decoder family incl. all pairs of modifier events",
 "C16": "; two-press decoder family incl. presses of the modifier and lock keys themselves",
 "C17": "; every chain of 2 and 3 change_layout calls from every variant",
}
for _k, _v in EXTRA.items():
    _c = P[_k]
    P[_k] = (_c[0], _c[1] + _v) + _c[2:]
NOT_YET = {}  # id -> reason (filled below for everything not in P)

ENGINES = [
 {"name": "reach", "path": "harness/src/explore.rs", "serves_properties": ["C01","C02","C04","C06","C07","C13","C14"], "kind_free_text": "Engine A: explicit-state BFS whose transition function is the real code (state = clone of the real object + reference-model state); own BFS with parent pointers plus stateright 0.31 BFS as independent cross-check of state counts and verdicts"},
 {"name": "sweep", "path": "harness/src/props", "serves_properties": ["C01","C02","C03","C05","C06","C07","C08","C09","C10","C11","C12","C15","C16","C17","C18","C19"], "kind_free_text": "Engine B: parallel exhaustive enumeration of transition relations, bounded stream trees with prefix sharing, and pure-table sweeps"},
 {"name": "probe", "path": "probe_c20", "serves_properties": ["C20"], "kind_free_text": "Engine C: no_std const/static probe crate and runtime twin, built without hooks; rustc is the judge"},
 {"name": "neutral", "path": "probe_neutral", "serves_properties": ["C01","C02","C03","C04","C05","C06","C07","C08","C09","C10","C11","C12","C13","C14","C15","C16","C17","C18","C19"], "kind_free_text": "hook-neutrality probe: one public-API program built against the tree without and with the verif-hooks feature; exhaustive output tables digested per group and compared between the two builds by every check (harness/src/props/neutral.rs), so that what is established on the hooks-on build transfers to the crate as shipped"},
 {"name": "tla", "path": "tla", "serves_properties": ["C01","C02","C04","C07"], "kind_free_text": "TLA+ cross-specification of the two prefix grammars and of the modifier record: TLC 1.8 explores each model completely and checks its invariants; harness/src/props/tlaconf.rs replays every edge of the dumped state graph on the real code for every concrete input of the edge's class (1536 + 768 + 190464 transitions) and compares the Rust reference models with the TLA+ models"},
]

def main():
    props = [json.loads(l)["id"] for l in open(os.path.join(HERE, "properties.jsonl"))]
    checks = []
    na = []
    for pid in props:
        if pid in P:
            cat, tech, text, note, ref = P[pid]
            checks.append({
                "property_id": pid,
                "quick_cmd": f"./vcheck {pid} quick",
                "thorough_cmd": f"./vcheck {pid} thorough",
                "evidence_file": f"/verif/evidence/{pid}.json",
                "replay_cmd_template": "./vcheck replay {path}",
                "engine": "probe" if pid == "C20" else "reach+sweep",
                "level_claimed": {"category": cat, "text": text, "design_ref": ref},
                "level_note": note,
                "technique": tech,
            })
        else:
            na.append({"property_id": pid, "reason": NOT_YET.get(pid, "check not built yet in this revision of /verif (planned: see DESIGN.md section 7); nothing is claimed for it")})
    hooks_commits = subprocess.run(["git","-C","/repo","log","--format=%H %s","--grep=^verif hook"], capture_output=True, text=True).stdout.strip().splitlines()
    m = {
        "version": 1,
        "setup_cmd": "./vcheck build",
        "hooks": {
            "guard": "cargo feature `verif-hooks` (pc-keyboard/Cargo.toml [features])",
            "enable": "the harness depends on pc-keyboard by path with features=[\"verif-hooks\"] (harness/Cargo.toml); every ./vcheck run rebuilds from /repo's working tree",
            "baseline_off_cmd": "cd /repo && cargo test --workspace --no-fail-fast --offline",
            "source_commits": [c.split()[0] for c in hooks_commits],
            "add_only": True,
        },
        "engines": ENGINES,
        "checks": checks,
        "not_applicable": na,
        "notes": "Exit codes: 0 held / 1 violation / 2 machinery failure. Known findings: /verif/KNOWN_FINDINGS.txt. Replays: /verif/replays/*.json (./vcheck replay <file>). All explorations are exhaustive within the stated bounds; no sampling anywhere.",
    }
    json.dump(m, open(os.path.join(HERE, "MANIFEST.json"), "w"), indent=1)
    print("checks:", [c["property_id"] for c in checks], "not_applicable:", [n["property_id"] for n in na])

main()
