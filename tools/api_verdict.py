#!/usr/bin/env python3
"""api_verdict.py <Cnn> <tier>   -- called by vcheck ONLY when the harness (or the C20 twin) no longer builds against the tree.

Builds the facts of /verif/probe_api that the given property quantifies over, one cargo feature at a time. If one of them no
longer compiles, something the property names has been REMOVED from the public API (not merely changed in shape): that is a
violation of the property; a replay file with the compiler's message and an evidence file are written, the VIOLATION line is
printed and the exit status is 1. Otherwise exit status 2: the API changed in a way the machinery cannot build against, which is
not a verdict."""
import json, os, subprocess, sys, time
HERE = os.path.dirname(os.path.dirname(os.path.abspath(__file__)))
VERIF = os.environ.get("VERIF_DIR", HERE)
REPO = os.environ.get("VERIF_REPO", "/repo")
FACTS = {
    "C17": [("anylayout_variants", "AnyLayout has a variant holding each of the ten shipped layouts"),
            ("anylayout_by_ref", "&AnyLayout implements KeyboardLayout (the wrapper 'used by reference')")],
    "C20": [("layout_values", "each of the ten shipped layouts can be named as a value and passed to a constructor"),
            ("anylayout_by_ref", "&AnyLayout implements KeyboardLayout (a shared static AnyLayout used by reference)")],
}
LEVEL = {"C17": "exploration", "C20": "other"}

def main():
    prop, tier = sys.argv[1].upper(), (sys.argv[2] if len(sys.argv) > 2 else "quick")
    facts = FACTS.get(prop)
    if not facts:
        return 2
    t0 = time.time()
    base = os.environ.get("CARGO_TARGET_DIR", os.path.join(HERE, "target"))
    env = dict(os.environ, CARGO_NET_OFFLINE="true", CARGO_TARGET_DIR=os.path.join(base, "api"))
    cfg = ["--config", 'paths=["%s"]' % REPO] if REPO != "/repo" else []
    # sanity: the crate itself must build, otherwise nothing can be said
    p = subprocess.run(["cargo", "build", "--offline"] + cfg, cwd=os.path.join(HERE, "probe_api"), env=env, capture_output=True, text=True)
    if p.returncode != 0:
        return 2
    bad = []
    for feat, text in facts:
        p = subprocess.run(["cargo", "build", "--offline", "--features", feat] + cfg, cwd=os.path.join(HERE, "probe_api"), env=env, capture_output=True, text=True)
        if p.returncode != 0:
            errs = [l for l in (p.stdout + p.stderr).splitlines() if l.startswith("error")]
            bad.append((feat, text, errs[:4]))
    if not bad:
        return 2
    os.makedirs(os.path.join(VERIF, "replays"), exist_ok=True)
    os.makedirs(os.path.join(VERIF, "evidence"), exist_ok=True)
    for feat, text, errs in bad:
        path = os.path.join(VERIF, "replays", "%s-api-removed-%s.json" % (prop, feat))
        json.dump({"property": prop, "key": "api-removed/" + feat,
                   "text": "the public API no longer offers what the property quantifies over: %s; rustc: %s" % (text, " | ".join(errs)),
                   "reproduce": "cd /verif/probe_api && cargo build --offline --features %s" % feat}, open(path, "w"), indent=1)
        print("VIOLATION property=%s replay=%s" % (prop, path))
        print("  key=api-removed/%s :: %s - no longer compiles against %s (%s)" % (feat, text, REPO, "; ".join(errs[:2])))
    ev = {"property_id": prop, "tier": tier, "seed": int(os.environ.get("VERIF_SEED", "0") or 0), "level": LEVEL[prop],
          "coverage": {"evaluations": len(facts), "distinct_nontrivial": len(facts), "exhaustive": False,
                       "rule": "the machinery does not build against this tree; only the API-presence facts of probe_api relevant to this property were compiled, one per cargo feature; each is non-trivial",
                       "samples": [{"fact": f, "meaning": t} for f, t in facts],
                       "explanation": "fallback verdict: %d of %d API facts no longer compile" % (len(bad), len(facts))},
          "assumptions": ["rustc as judge of API presence"], "wall_s": time.time() - t0, "violations": len(bad)}
    json.dump(ev, open(os.path.join(VERIF, "evidence", prop + ".json"), "w"), indent=1)
    return 1

sys.exit(main())
