#![no_std]
#![allow(dead_code)]
use pc_keyboard::layouts::*;
use pc_keyboard::*;

/// C20 ("for every layout"): each of the ten shipped layouts can be named as a value and handed to the constructors
#[cfg(feature = "layout_values")]
pub fn layout_values() {
    let _ = EventDecoder::new(Us104Key, HandleControl::Ignore);
    let _ = EventDecoder::new(Uk105Key, HandleControl::Ignore);
    let _ = EventDecoder::new(De105Key, HandleControl::Ignore);
    let _ = EventDecoder::new(Azerty, HandleControl::Ignore);
    let _ = EventDecoder::new(No105Key, HandleControl::Ignore);
    let _ = EventDecoder::new(FiSe105Key, HandleControl::Ignore);
    let _ = EventDecoder::new(Jis109Key, HandleControl::Ignore);
    let _ = EventDecoder::new(Colemak, HandleControl::Ignore);
    let _ = EventDecoder::new(Dvorak104Key, HandleControl::Ignore);
    let _ = EventDecoder::new(DVP104Key, HandleControl::Ignore);
}

/// C17: the wrapper has a variant for each of the ten layouts
#[cfg(feature = "anylayout_variants")]
pub fn anylayout_variants() -> [AnyLayout; 10] {
    [
        AnyLayout::Us104Key(Us104Key),
        AnyLayout::Uk105Key(Uk105Key),
        AnyLayout::De105Key(De105Key),
        AnyLayout::Azerty(Azerty),
        AnyLayout::No105Key(No105Key),
        AnyLayout::FiSe105Key(FiSe105Key),
        AnyLayout::Jis109Key(Jis109Key),
        AnyLayout::Colemak(Colemak),
        AnyLayout::Dvorak104Key(Dvorak104Key),
        AnyLayout::DVP104Key(DVP104Key),
    ]
}

/// C17 / C20: the wrapper can be used by reference as a layout
#[cfg(feature = "anylayout_by_ref")]
pub fn anylayout_by_ref(a: &'static AnyLayout) -> EventDecoder<&'static AnyLayout> {
    fn is_layout<L: KeyboardLayout>(_: &L) {}
    is_layout(&a);
    EventDecoder::new(a, HandleControl::Ignore)
}
