//! TLA+ cross-specification: the prefix grammars (Set2Prefix.tla, Set1Prefix.tla) and the modifier record (Mods.tla)
//! are specified a second time, independently of the Rust reference models, in /verif/tla. TLC explores each
//! model completely, checks the model-level invariants and dumps the labelled state graph; this module replays
//! EVERY edge of that graph against the real code for EVERY concrete input of the edge's class (conformance) and
//! also compares the Rust reference model with the TLA+ model edge by edge.
//! If `tlc` is not available the part is skipped with a note (it is an additional cross-check, never the only
//! evidence for a property).

use crate::common::*;
use crate::props::events::rmods_step;
use crate::refs::scancodes::*;
use crate::replay::{fmt_ev, Op, Replay};
use crate::report::Ctx;
use pc_keyboard::{HandleControl, KeyCode, KeyEvent, KeyState, Keyboard, ScancodeSet, ScancodeSet1, ScancodeSet2};
use serde_json::json;
use std::collections::{HashMap, VecDeque};
use std::process::Command;

pub struct DotGraph {
    /// node id -> label text (TLA+ state rendering)
    pub labels: HashMap<String, String>,
    /// (source id, action label, target id)
    pub edges: Vec<(String, String, String)>,
    pub init: String,
}

fn unescape(s: &str) -> String {
    s.replace("\\n", "\n").replace("\\\"", "\"").replace("\\\\", "\\")
}

fn attr<'a>(line: &'a str, name: &str) -> Option<&'a str> {
    let pat = format!("{}=\"", name);
    let a = line.find(&pat)? + pat.len();
    // find the closing quote that is not escaped
    let bytes = line.as_bytes();
    let mut i = a;
    while i < bytes.len() {
        if bytes[i] == b'\\' {
            i += 2;
            continue;
        }
        if bytes[i] == b'"' {
            return Some(&line[a..i]);
        }
        i += 1;
    }
    None
}

pub fn parse_dot(text: &str) -> Option<DotGraph> {
    let mut g = DotGraph { labels: HashMap::new(), edges: vec![], init: String::new() };
    for line in text.lines() {
        let line = line.trim();
        if line.is_empty() || !(line.starts_with('-') || line.chars().next().map_or(false, |c| c.is_ascii_digit())) {
            continue;
        }
        let head = line.split('[').next()?.trim();
        if let Some((a, b)) = head.split_once("->") {
            let label = unescape(attr(line, "label")?);
            g.edges.push((a.trim().to_string(), label, b.trim().to_string()));
        } else {
            let id = head.to_string();
            let label = unescape(attr(line, "label")?);
            if line.contains("style = filled") && g.init.is_empty() {
                g.init = id.clone();
            }
            g.labels.entry(id).or_insert(label);
        }
    }
    if g.init.is_empty() || g.labels.is_empty() {
        return None;
    }
    Some(g)
}

/// Run TLC on `<spec>.tla` in /verif/tla; returns the dumped graph and the number of distinct states TLC reports.
pub fn run_tlc(ctx: &mut Ctx, spec: &str) -> Option<(DotGraph, u64)> {
    let dir = crate::report::verif_dir().join("tla");
    let src_dir = if dir.join(format!("{}.tla", spec)).exists() { dir } else { std::path::PathBuf::from("/verif/tla") };
    let work = crate::report::verif_dir().join("target").join(format!("tlc-{}-{}", spec, std::process::id()));
    let _ = std::fs::create_dir_all(&work);
    let dot = work.join("graph.dot");
    let out = Command::new("tlc")
        .current_dir(&src_dir)
        .env("JAVA_TOOL_OPTIONS", "-Xmx1g")
        .args(["-dump", "dot,actionlabels"])
        .arg(&dot)
        .arg("-metadir")
        .arg(work.join("meta"))
        .arg(format!("{}.tla", spec))
        .output();
    let out = match out {
        Ok(o) => o,
        Err(e) => {
            ctx.note(&format!("TLA+ cross-specification {} skipped: cannot run tlc ({})", spec, e));
            return None;
        }
    };
    let stdout = String::from_utf8_lossy(&out.stdout).to_string();
    if !stdout.contains("Model checking completed. No error has been found.") {
        let tail: Vec<&str> = stdout.lines().rev().take(12).collect();
        ctx.machinery(&format!("TLC did not verify the model {} (the model's own invariants failed or TLC crashed): {}", spec, tail.into_iter().rev().collect::<Vec<_>>().join(" | ")));
        let _ = std::fs::remove_dir_all(&work);
        return None;
    }
    let distinct = stdout
        .lines()
        .find(|l| l.contains("distinct states found"))
        .and_then(|l| l.split("generated,").nth(1))
        .and_then(|r| r.trim().split(' ').next().and_then(|n| n.parse::<u64>().ok()))
        .unwrap_or(0);
    let text = std::fs::read_to_string(&dot).ok();
    let _ = std::fs::remove_dir_all(&work);
    let g = text.as_deref().and_then(parse_dot);
    if g.is_none() {
        ctx.machinery(&format!("cannot parse the state graph TLC dumped for {}", spec));
    }
    g.map(|g| (g, distinct))
}

/// shortest action-label path from the initial model state to every model state
fn model_paths(g: &DotGraph) -> HashMap<String, Vec<String>> {
    let mut paths: HashMap<String, Vec<String>> = HashMap::new();
    paths.insert(g.init.clone(), vec![]);
    let mut q = VecDeque::new();
    q.push_back(g.init.clone());
    while let Some(s) = q.pop_front() {
        for (a, act, b) in &g.edges {
            if *a == s && !paths.contains_key(b) {
                let mut p = paths[&s].clone();
                p.push(act.clone());
                paths.insert(b.clone(), p);
                q.push_back(b.clone());
            }
        }
    }
    paths
}

fn field<'a>(label: &'a str, name: &str) -> Option<&'a str> {
    for part in label.split("/\\") {
        let part = part.trim();
        if let Some(rest) = part.strip_prefix(name) {
            if let Some(v) = rest.trim_start().strip_prefix('=') {
                return Some(v.trim());
            }
        }
    }
    None
}

fn class_of(act: &str) -> Option<String> {
    // Byte("E0") -> E0
    let a = act.find("(\"")? + 2;
    let b = act.rfind("\")")?;
    Some(act[a..b].to_string())
}

// ---- prefix grammars -----------------------------------------------------------------------------------

fn class_bytes(set: u8, class: &str) -> Vec<u8> {
    match class {
        "E0" => vec![0xE0],
        "E1" => vec![0xE1],
        "F0" => vec![0xF0],
        _ => (0..=255u8).filter(|b| *b != 0xE0 && *b != 0xE1 && (set == 1 || *b != 0xF0)).collect(),
    }
}
fn canon_byte(class: &str) -> u8 {
    match class {
        "E0" => 0xE0,
        "E1" => 0xE1,
        "F0" => 0xF0,
        _ => 0x1C,
    }
}

/// `with_tables`: also require the event of a LOOKUP edge to be the key R-SET assigns (C01/C02); without it only
/// the automaton is judged - a LOOKUP edge must yield *some* event or error (C07, which is table-free)
pub fn prefix_conformance<S: ScancodeSet + Clone + PartialEq + std::fmt::Debug>(ctx: &mut Ctx, set: u8, mk: fn() -> S, with_tables: bool) {
    let spec = if set == 2 { "Set2Prefix" } else { "Set1Prefix" };
    let comp = if set == 2 { "set2" } else { "set1" };
    let Some((g, distinct)) = run_tlc(ctx, spec) else { return };
    let paths = model_paths(&g);
    ctx.expect(paths.len() == g.labels.len(), &format!("{}: every model state is reachable in the dumped graph", spec));
    // real decoder at the canonical concrete path of each model state
    let real_at = |state: &str| -> Option<(S, Vec<u8>)> {
        let mut d = mk();
        let mut bytes = vec![];
        for act in &paths[state] {
            let b = canon_byte(&class_of(act)?);
            let _ = guarded(|| d.advance_state(b));
            bytes.push(b);
        }
        Some((d, bytes))
    };
    let mut replayed = 0u64;
    let mut ref_disagree = 0u64;
    for (a, act, b) in &g.edges {
        let (Some(class), Some(la), Some(lb)) = (class_of(act), g.labels.get(a), g.labels.get(b)) else {
            ctx.machinery(&format!("{}: unreadable edge {} -{}-> {}", spec, a, act, b));
            continue;
        };
        let table = match field(la, "table").map(|t| t.trim_matches('"')) {
            Some("E0") => E0,
            Some("E1") => E1,
            _ => PLAIN,
        };
        let brk = field(la, "brk") == Some("TRUE");
        let out_next = field(lb, "out").map(|t| t.trim_matches('"').to_string()).unwrap_or_default();
        let (Some((src, pre)), Some((dst, _))) = (real_at(a), real_at(b)) else { continue };
        for byte in class_bytes(set, &class) {
            let mut d = src.clone();
            let r = guarded(|| d.advance_state(byte));
            replayed += 1;
            // what the TLA+ model prescribes: "none" = swallowed prefix; "lookup" = table look-up in (table, brk)
            let allowed = if out_next == "none" {
                Allowed::NoEvent
            } else {
                lookup_allowed(set, table, brk, byte)
            };
            // the Rust reference automaton must prescribe the same (reference vs reference)
            let (rust_allowed, _) = if set == 2 { auto2(Ctx2 { table, brk }, byte) } else { let (x, t) = auto1(table, byte); (x, Ctx2 { table: t, brk: false }) };
            if rust_allowed != allowed {
                ref_disagree += 1;
            }
            let ok_out = if with_tables || out_next == "none" {
                matches!(&r, Ok(x) if allowed.admits(x))
            } else {
                matches!(&r, Ok(x) if !matches!(x, Ok(None)))
            };
            // state conformance: the real state after this edge must be the real state at the canonical path of the target
            let ok_state = d == dst || (0..=255u8).all(|p| {
                let (mut x, mut y) = (d.clone(), dst.clone());
                guarded(|| x.advance_state(p)) == guarded(|| y.advance_state(p))
            });
            if !ok_out || !ok_state {
                let mut ops: Vec<Op> = pre.iter().map(|x| Op::Byte(*x)).collect();
                ops.push(Op::Byte(byte));
                let obs = match &r {
                    Ok(x) => fmt_ev(x),
                    Err(p) => p.clone(),
                };
                ctx.violation(
                    &format!("{}/tla-conformance/{}{}/0x{:02X}", comp, CTX_NAMES[table as usize], if brk { "+F0" } else { "" }, byte),
                    &format!(
                        "{}: the real decoder does not implement the TLA+ model {}: in model state ({}) byte 0x{:02X} must {} but the code gives {}{}",
                        comp, spec, la.replace('\n', " "), byte,
                        if out_next == "none" { "be swallowed as a prefix (Ok(None))".to_string() } else if with_tables { format!("give {} and return to the initial state", allowed.text()) } else { "complete the sequence (an event or an error) and return to the initial state".to_string() },
                        obs, if ok_out { " and is left in a state that differs from the model's successor state" } else { "" }
                    ),
                    Replay::one(comp, ops, &allowed.text(), Some(obs)),
                );
            }
        }
    }
    ctx.expect(ref_disagree == 0, &format!("{}: the Rust reference automaton agrees with the TLA+ model on every edge ({} disagreements)", spec, ref_disagree));
    ctx.evaluations += replayed;
    ctx.traces_validated += replayed;
    ctx.part(
        &format!("tla:{} (TLC model check + edge-by-edge conformance of the real decoder)", spec),
        json!({"engine": "TLC 1.8 explicit-state + conformance replay", "model_states": g.labels.len(), "tlc_distinct_states": distinct, "model_edges": g.edges.len(),
               "concrete_transitions_replayed_on_real_code": replayed, "model_invariants": ["TypeOK", "ResyncAfterLookup", "PrefixChainBounded"],
               "rust_reference_vs_tla_disagreements": ref_disagree}),
    );
}

// ---- modifier record -------------------------------------------------------------------------------------

fn mods_of_label(label: &str) -> Option<u16> {
    let held = field(label, "held")?;
    let mut m = 0u16;
    for (name, bit) in [("LShift", M_LSHIFT), ("RShift", M_RSHIFT), ("LControl", M_LCTRL), ("RControl\"", M_RCTRL), ("LAlt", M_LALT), ("RAltGr", M_RALT), ("RControl2", M_RCTRL2)] {
        if held.contains(&format!("\"{}", name)) {
            m |= bit;
        }
    }
    if field(label, "caps")? == "TRUE" {
        m |= M_CAPS;
    }
    if field(label, "num")? == "TRUE" {
        m |= M_NUM;
    }
    Some(m)
}

fn events_of(act: &str) -> Vec<(KeyCode, KeyState)> {
    if act.starts_with("Down(") || act.starts_with("Up(") {
        let st = if act.starts_with("Down(") { KeyState::Down } else { KeyState::Up };
        return class_of(act).and_then(|n| key_by_name(&n)).map(|k| vec![(k, st)]).unwrap_or_default();
    }
    match act {
        "CapsDown" => vec![(KeyCode::CapsLock, KeyState::Down)],
        "NumDown" => vec![(KeyCode::NumpadLock, KeyState::Down)],
        "Other" => {
            // everything the other actions do not name
            let mut v = vec![];
            for k in ALL_KEYS {
                for s in KEY_STATES {
                    let momentary = crate::props::events::momentary_bit(k).is_some();
                    let named = (momentary && s != KeyState::SingleShot) || ((k == KeyCode::CapsLock || k == KeyCode::NumpadLock) && s == KeyState::Down);
                    if !named {
                        v.push((k, s));
                    }
                }
            }
            v
        }
        _ => vec![],
    }
}

pub fn mods_conformance(ctx: &mut Ctx) {
    let Some((g, distinct)) = run_tlc(ctx, "Mods") else { return };
    let paths = model_paths(&g);
    ctx.expect(g.labels.len() == 512, &format!("Mods.tla has 512 states (TLC dumped {})", g.labels.len()));
    let mut replayed = 0u64;
    let mut ref_disagree = 0u64;
    let mut cache: HashMap<String, (Keyboard<Echo, ScancodeSet2>, Vec<Op>)> = HashMap::new();
    for (a, act, b) in &g.edges {
        let (Some(ma), Some(mb)) = (g.labels.get(a).and_then(|l| mods_of_label(l)), g.labels.get(b).and_then(|l| mods_of_label(l))) else {
            ctx.machinery(&format!("Mods: unreadable state label on edge {}", act));
            continue;
        };
        let (src, pre) = cache
            .entry(a.clone())
            .or_insert_with(|| {
                let mut kb = Keyboard::new(ScancodeSet2::new(), Echo(0), HandleControl::Ignore);
                let mut ops = vec![];
                for step in &paths[a] {
                    // concretise each model action along the path by its first event
                    if let Some((k, s)) = events_of(step).first() {
                        let _ = guarded(|| kb.process_keyevent(KeyEvent::new(*k, *s)));
                        ops.push(Op::Key(*k, *s));
                    }
                }
                (kb, ops)
            })
            .clone();
        // the canonical real state must itself show the model state
        if bits_from_mods(src.get_modifiers()) != ma {
            continue; // reported on the edge that first went wrong
        }
        for (k, s) in events_of(act) {
            let mut kb = src.clone();
            let r = guarded(|| kb.process_keyevent(KeyEvent::new(k, s)));
            replayed += 1;
            if rmods_step(ma, k, s) != mb {
                ref_disagree += 1;
            }
            let got = bits_from_mods(kb.get_modifiers());
            if r.is_err() || got != mb {
                let mut ops = pre.clone();
                ops.push(Op::Key(k, s));
                ops.push(Op::Mods);
                let comp = "kb:echo-0:set2:Ignore";
                let obs = crate::replay::run_part(comp, &ops).pop();
                ctx.violation(
                    &format!("mods/getter/{}:{}/from:{}", key_name(k), state_name(s), ma),
                    &format!(
                        "kb: the real Keyboard does not implement the TLA+ model Mods: from modifiers [{}] the event {:?} {:?} (model action {}) must lead to [{}] but get_modifiers() reports [{}]",
                        mods_text(ma), k, s, act, mods_text(mb), if r.is_err() { "PANIC".to_string() } else { mods_text(got) }
                    ),
                    Replay::one(comp, ops, &format!("mods={}", mods_text(mb)), obs),
                );
            }
        }
    }
    ctx.expect(ref_disagree == 0, &format!("Mods: the Rust reference R-MODS agrees with the TLA+ model on every edge ({} disagreements)", ref_disagree));
    ctx.evaluations += replayed;
    ctx.traces_validated += replayed;
    ctx.part(
        "tla:Mods (TLC model check + edge-by-edge conformance of the real Keyboard)",
        json!({"engine": "TLC 1.8 explicit-state + conformance replay", "model_states": g.labels.len(), "tlc_distinct_states": distinct, "model_edges": g.edges.len(),
               "concrete_transitions_replayed_on_real_code": replayed, "rust_reference_vs_tla_disagreements": ref_disagree}),
    );
}

pub fn set2_conformance(ctx: &mut Ctx, with_tables: bool) {
    prefix_conformance::<ScancodeSet2>(ctx, 2, ScancodeSet2::new, with_tables);
}
pub fn set1_conformance(ctx: &mut Ctx, with_tables: bool) {
    prefix_conformance::<ScancodeSet1>(ctx, 1, ScancodeSet1::new, with_tables);
}
