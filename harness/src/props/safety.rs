//! C08: no operation panics or overflows for any input in any reachable state.
//! The exploration runs in a child process that journals the chunk it is in, so that an abort
//! (stack overflow, allocation failure) or a hang is attributed and reported as a violation too.
//! The harness (and pc-keyboard inside it) is compiled with overflow checks and debug assertions.

use crate::common::*;
use crate::explore::*;
use crate::props::compose::{full_ops, state_ops, sweep, SetLike};
use crate::props::events::{ev_alphabet, mods_paths, EvSys};
use crate::props::frame::{BitAct, FrameSys};
use crate::props::scan::{BareSys, ByteDev};
use crate::replay::{Op, Replay};
use crate::report::Ctx;
use pc_keyboard::{EventDecoder, HandleControl, KeyEvent, KeyState, Keyboard, Ps2Decoder, ScancodeSet, ScancodeSet1, ScancodeSet2};
use serde_json::{json, Value};
use std::io::{BufRead, BufReader, Write};
use std::panic::{catch_unwind, AssertUnwindSafe};
use std::process::{Command, Stdio};
use std::sync::mpsc;
use std::time::Duration;

struct Out {
    evaluations: u64,
    states: u64,
    transitions: u64,
    nontrivial: u64,
    parts: Vec<(String, Value)>,
    viol: Vec<Value>,
}

fn chunk(name: &str) {
    println!("CHUNK {}", name);
    let _ = std::io::stdout().flush();
}

fn viol(out: &mut Out, key: &str, text: &str, comp: &str, ops: Vec<Op>, observed: &str) {
    if out.viol.len() < 200 {
        out.viol.push(json!({"key": key, "text": text, "component": comp, "ops": ops.iter().map(|o| o.text()).collect::<Vec<_>>(), "observed": observed}));
    }
}

fn scan_graph<D: ByteDev>(out: &mut Out) {
    chunk(&format!("scancode-graph {}", D::component()));
    let sys = BareSys::<D>::new();
    let g = bfs(&sys, true, 20_000);
    let mut panics = 0;
    for s in 0..g.expanded {
        for (ai, o) in g.outs[s].iter().enumerate() {
            if let Err(p) = o {
                panics += 1;
                let mut ops: Vec<Op> = g.path_to(s).iter().map(|a| Op::Byte(sys.alphabet[*a])).collect();
                ops.push(Op::Byte(sys.alphabet[ai]));
                let hexs: Vec<String> = ops.iter().map(|o| o.text()).collect();
                viol(out, &format!("{}/panic/{}", D::component(), hexs.join(",")), &format!("{}: byte stream {:?} panics: {}", D::component(), hexs, p), &D::component(), ops, p);
            }
        }
    }
    out.states += g.states.len() as u64;
    out.transitions += g.edges;
    out.evaluations += g.edges;
    out.nontrivial += g.edges;
    out.parts.push((format!("graph:{}", D::component()), json!({"real_states": g.states.len(), "transitions": g.edges, "panicking_edges": panics})));
}

fn frame_graph(out: &mut Out) {
    chunk("ps2-graph");
    let sys = FrameSys::new();
    let g = bfs(&sys, true, 1_200_000);
    let mut panics = 0;
    for s in 0..g.expanded {
        for (ai, o) in g.outs[s].iter().enumerate() {
            if o == "PANIC" {
                panics += 1;
                let mut ops: Vec<Op> = g.path_to(s).iter().map(|a| act_op(&sys.alphabet()[*a])).collect();
                ops.push(act_op(&sys.alphabet()[ai]));
                viol(out, &format!("ps2/panic/{}bits:{:b}/{}", g.states[s].2, g.states[s].1, ops.last().unwrap().text()), &format!("Ps2Decoder: {} after {} frame bits panics", ops.last().unwrap().text(), g.states[s].2), "ps2", ops, "PANIC");
            }
        }
    }
    out.states += g.states.len() as u64;
    out.transitions += g.edges;
    out.evaluations += g.edges;
    out.nontrivial += g.edges;
    out.parts.push(("graph:Ps2Decoder".into(), json!({"real_states": g.states.len(), "transitions": g.edges, "panicking_edges": panics})));

    chunk("ps2-all-u16-words");
    let mut d = Ps2Decoder::new();
    let mut panics = 0;
    for w in 0..=u16::MAX {
        if catch_unwind(AssertUnwindSafe(|| d.add_word(w))).is_err() {
            panics += 1;
            viol(out, &format!("ps2/panic/word:{:04X}", w), &format!("Ps2Decoder::add_word(0x{:04X}) panics", w), "ps2", vec![Op::Word(w)], "PANIC");
        }
    }
    out.evaluations += 65536;
    out.nontrivial += 65536;
    out.parts.push(("sweep:Ps2Decoder::add_word all u16".into(), json!({"words": 65536, "panics": panics})));
}
/// hook-free panic hunts: every 2-frame bit stream and every 3-byte scancode stream with each call guarded
fn stream_hunts(out: &mut Out, thorough: bool) {
    chunk("ps2-bit-streams 22 bits (guarded)");
    let mut n = 0;
    let mut panics = 0;
    for ((c, bads), _) in crate::props::frame::bit_tree(22, true) {
        n += c;
        for (path, _want, got) in bads {
            if got == "PANIC" {
                panics += 1;
                let ops: Vec<Op> = path.iter().map(|b| Op::Bit(*b)).collect();
                let bits: String = path.iter().map(|b| if *b { '1' } else { '0' }).collect();
                viol(out, &format!("ps2/panic/bits:{}", bits), &format!("Ps2Decoder::add_bit panics at the last bit of the stream {} (arrival order)", bits), "ps2", ops, "PANIC");
            }
        }
    }
    out.evaluations += n;
    out.nontrivial += n;
    out.parts.push(("tree:Ps2Decoder bit streams (guarded)".into(), json!({"bits_per_stream": 22, "bit_positions": n, "panicking_streams_recorded": panics})));
    fn hunt<D: ByteDev>(out: &mut Out) {
        chunk(&format!("scancode-streams 3 bytes (guarded) {}", D::component()));
        let (n, bads) = crate::props::scan::panic_streams::<D>(3);
        for (path, p) in &bads {
            let ops: Vec<Op> = path.iter().map(|b| Op::Byte(*b)).collect();
            let hexs: Vec<String> = ops.iter().map(|o| o.text()).collect();
            viol(out, &format!("{}/panic/{}", D::component(), hexs.join(",")), &format!("{}: byte stream {:?} panics: {}", D::component(), hexs, p), &D::component(), ops, p);
        }
        out.evaluations += n;
        out.nontrivial += n;
        out.parts.push((format!("tree:{} byte streams (guarded)", D::component()), json!({"max_stream_length": 3, "stream_positions": n, "panicking_streams_recorded": bads.len()})));
    }
    hunt::<ScancodeSet2>(out);
    hunt::<ScancodeSet1>(out);
    // pumped streams: every word of <= 2 bytes / every frame repeated 300 times (reaches counters, logs, caches)
    fn pumped<D: ByteDev>(out: &mut Out) {
        chunk(&format!("scancode-pumped-streams {}", D::component()));
        let (n, bads) = crate::props::scan::pump::<D>(2, 300, 2);
        for b in &bads {
            viol(out, &b.key, &b.text, &D::component(), crate::props::scan::pump_ops(b), &b.observed);
        }
        out.evaluations += n;
        out.nontrivial += n;
        out.parts.push((format!("pump:{} words<=2 x300", D::component()), json!({"stream_positions": n, "panicking_streams_recorded": bads.len()})));
    }
    pumped::<ScancodeSet2>(out);
    pumped::<ScancodeSet1>(out);
    pumped::<Keyboard<Echo, ScancodeSet2>>(out);
    pumped::<Keyboard<Echo, ScancodeSet1>>(out);
    chunk("ps2-pumped-frames");
    for with_clear in [false, true] {
        let (n, bads) = crate::props::frame::pump_frames(300, with_clear);
        let mut panics = 0;
        for (w, rep, bit, _want, got) in bads {
            if got == "PANIC" {
                panics += 1;
                viol(out, &format!("ps2/panic/pumped{}/frame:0x{:03X}", if with_clear { "-with-clear" } else { "" }, w), &format!("Ps2Decoder: frame 0x{:03X} shifted in repeatedly panics in repetition {} at bit {}", w, rep + 1, bit + 1), "ps2", crate::props::frame::pump_frame_ops(w, rep, bit, with_clear), "PANIC");
            }
        }
        out.evaluations += n;
        out.nontrivial += n;
        out.parts.push((format!("pump:frames x300{}", if with_clear { " with clear" } else { "" }), json!({"bit_positions": n, "panics": panics})));
    }
    chunk("ps2-pumped-frame-pairs");
    {
        let seconds = crate::props::frame::pair_seconds(thorough);
        let (n, bads) = crate::props::frame::pump_frame_pairs(6, &seconds);
        let mut panics = 0;
        for (w1, w2, rep, upto, _want, got) in bads {
            if got == "PANIC" {
                panics += 1;
                viol(out, &format!("ps2/panic/pumped-pair/0x{:03X}-0x{:03X}", w1, w2), &format!("Ps2Decoder: frames 0x{:03X} and 0x{:03X} shifted in alternately panic in repetition {} at bit {} of the pair", w1, w2, rep + 1, upto + 1), "ps2", crate::props::frame::pump_pair_ops(w1, w2, rep, upto), "PANIC");
            }
        }
        out.evaluations += n;
        out.nontrivial += n;
        out.parts.push(("pump:frame pairs (w1 w2)^6".into(), json!({"second_frames": seconds.len(), "bit_positions": n, "panics": panics})));
    }
}

fn act_op(a: &BitAct) -> Op {
    match a {
        BitAct::Bit(b) => Op::Bit(*b),
        BitAct::Clear => Op::Clear,
        BitAct::Word(w) => Op::Word(*w),
    }
}

fn kb_words<S: SetLike>(out: &mut Out) {
    chunk(&format!("keyboard-all-u16-words {}", S::NAME));
    let mut panics = 0u64;
    let mut n = 0u64;
    for (pi, pre) in S::prefixes().iter().enumerate() {
        let mut k = Keyboard::new(S::fresh(), Echo(0), HandleControl::MapLettersToUnicode);
        for b in pre {
            let _ = k.add_byte(*b);
        }
        for w in 0..=u16::MAX {
            let mut k2 = k.clone();
            n += 1;
            if catch_unwind(AssertUnwindSafe(|| k2.add_word(w))).is_err() {
                panics += 1;
                let mut ops: Vec<Op> = pre.iter().map(|b| Op::Byte(*b)).collect();
                ops.push(Op::Word(w));
                viol(out, &format!("kb-{}/panic/prefix{}/word:{:04X}", S::NAME, pi, w), &format!("Keyboard<{}>::add_word(0x{:04X}) after prefix {:02X?} panics", S::NAME, w, pre), &format!("kb:echo-0:{}:Map", S::NAME), ops, "PANIC");
            }
        }
    }
    out.evaluations += n;
    out.nontrivial += n;
    out.parts.push((format!("sweep:Keyboard<{}>::add_word all u16 x scancode states", S::NAME), json!({"calls": n, "panics": panics})));
}

fn ev_graph(out: &mut Out) {
    chunk("eventdecoder-graph echo");
    let sys = EvSys::<EventDecoder<Echo>> { alphabet: ev_alphabet(true), init_mode: HandleControl::MapLettersToUnicode, check_mods: false, check_ret: false, _d: std::marker::PhantomData };
    let g = bfs(&sys, false, 100_000);
    for (si, ai, b) in &g.bads {
        let mut ops: Vec<Op> = g.path_to(*si).iter().map(|a| sys.alphabet[*a].op()).collect();
        ops.push(sys.alphabet[*ai].op());
        viol(out, &b.key, &b.text, "ed:echo-0:Map", ops, &b.observed);
    }
    out.states += g.states.len() as u64;
    out.transitions += g.edges;
    out.evaluations += g.edges;
    out.nontrivial += g.edges;
    out.parts.push(("graph:EventDecoder<Echo>".into(), json!({"real_states": g.states.len(), "transitions": g.edges, "panicking_edges": g.bads.len()})));

    chunk("eventdecoder-real-layouts");
    let paths = mods_paths();
    let res = par_chunks(N_LAYOUTS, |l| {
        let mut n = 0u64;
        let mut bads = vec![];
        for m in 0..512u16 {
            for mode in MODES {
                let mut d = EventDecoder::new(Wrap(l as u8), mode);
                let r = catch_unwind(AssertUnwindSafe(|| {
                    for (k, s) in &paths[m as usize] {
                        let _ = d.process_keyevent(KeyEvent::new(*k, *s));
                    }
                }));
                if r.is_err() {
                    bads.push((l, m, mode, None));
                    continue;
                }
                for k in ALL_KEYS {
                    for s in KEY_STATES {
                        let mut d2 = d.clone();
                        n += 1;
                        if catch_unwind(AssertUnwindSafe(|| d2.process_keyevent(KeyEvent::new(k, s)))).is_err() && bads.len() < 20 {
                            bads.push((l, m, mode, Some((k, s))));
                        }
                    }
                }
            }
        }
        (n, bads)
    });
    let mut n = 0;
    let mut panics = 0;
    for (c, bads) in res {
        n += c;
        for (l, m, mode, ks) in bads {
            panics += 1;
            let mut ops: Vec<Op> = paths[m as usize].iter().map(|(k, s)| Op::Key(*k, *s)).collect();
            if let Some((k, s)) = ks {
                ops.push(Op::Key(k, s));
            }
            let last = ops.last().map(|o| o.text()).unwrap_or_default();
            viol(
                out,
                &format!("ed-{}/panic/mods:{}/{}/{}", LAYOUT_NAMES[l], m, mode_name(mode), last),
                &format!("EventDecoder over layout {} with modifiers [{}] mode {}: {} panics", LAYOUT_NAMES[l], mods_text(m), mode_name(mode), last),
                &format!("ed:wrap-{}:{}", LAYOUT_NAMES[l], mode_name(mode)),
                ops,
                "PANIC",
            );
        }
    }
    out.evaluations += n;
    out.nontrivial += n;
    out.parts.push(("sweep:EventDecoder<real layouts> 1024 states x 372 events".into(), json!({"calls": n, "panics": panics})));
}

fn layouts(out: &mut Out) {
    chunk("layouts 30 objects x 124 keys x 512 modifier sets x 2 modes");
    let res = par_chunks(30, |i| {
        let form = i / 10;
        let l = i % 10;
        let mut n = 0u64;
        let mut bads = vec![];
        for k in ALL_KEYS {
            for m in 0..512u16 {
                let mods = mods_from_bits(m);
                for mode in MODES {
                    n += 1;
                    if catch_unwind(AssertUnwindSafe(|| map_form(form, l, k, &mods, mode))).is_err() && bads.len() < 20 {
                        bads.push((form, l, k, m, mode));
                    }
                }
            }
        }
        (n, bads)
    });
    let mut n = 0;
    let mut panics = 0;
    for (c, bads) in res {
        n += c;
        for (form, l, k, m, mode) in bads {
            panics += 1;
            viol(
                out,
                &format!("layout-{}-{}/panic/{}/mods:{}/{}", FORM_NAMES[form], LAYOUT_NAMES[l], key_name(k), m, mode_name(mode)),
                &format!("layout {} ({}) panics for key {:?}, modifiers [{}], mode {}", LAYOUT_NAMES[l], FORM_NAMES[form], k, mods_text(m), mode_name(mode)),
                &format!("layout:{}:{}", FORM_NAMES[form], LAYOUT_NAMES[l]),
                vec![Op::Map(k, m, mode)],
                "PANIC",
            );
        }
    }
    out.evaluations += n;
    out.nontrivial += n;
    out.parts.push(("sweep:layouts".into(), json!({"layout_objects": 30, "calls": n, "panics": panics})));
}

/// decoder-level histories (two-press family over the real layouts, pumped event words): only panics count here
fn decoder_histories(out: &mut Out, thorough: bool) {
    chunk("eventdecoder two-press family + pumped event words (guarded)");
    let mut tmp = Ctx::new("C08", if thorough { crate::report::Tier::Thorough } else { crate::report::Tier::Quick }, "exploration");
    let all: Vec<usize> = (0..N_LAYOUTS).collect();
    let n1 = crate::props::events::decoder_family(&mut tmp, "family", &all, &|_l| ALL_KEYS.to_vec(), if thorough { 2 } else { 1 }, |_l, _k, _m, _mode, outp| match outp {
        Err(p) if p.starts_with("PANIC") => Some(("panic".to_string(), "returns normally".to_string())),
        _ => None,
    });
    let n2 = crate::props::events::pump_events(&mut tmp, false, false);
    let mut panics = 0;
    for (key, v) in tmp.violations.iter() {
        panics += 1;
        let (comp, ops) = v.replay.parts.first().cloned().unwrap_or_default();
        viol(out, &format!("ed/panic/{}", key), &v.text, &comp, ops, "PANIC");
    }
    out.evaluations += n1 + n2;
    out.nontrivial += n1 + n2;
    out.parts.push(("family+pump:EventDecoder histories (guarded)".into(), json!({"second_presses": n1, "pumped_events": n2, "panicking_histories_recorded": panics})));
}

fn kb_sweep<S: SetLike>(out: &mut Out, bound: usize) {
    chunk(&format!("keyboard-product {} bound {}", S::NAME, bound));
    let ops = full_ops(2048);
    let st = sweep::<S>(bound, &ops, false);
    for b in &st.bads {
        let (comp, mut o, desc) = state_ops::<S>(b);
        o.push(b.op.op());
        viol(out, &format!("kb-{}/panic/{}/ev{}-sc{}-fr{}:{}", S::NAME, b.op.op().text(), b.ev_idx, b.sc_idx, b.fr_len, b.fr_bits), &format!("Keyboard<{}> in state ({}): {} panics", S::NAME, desc, b.op.op().text()), &comp, o, "PANIC");
    }
    out.states += st.states;
    out.transitions += st.transitions;
    out.evaluations += st.transitions;
    out.nontrivial += st.transitions;
    out.parts.push((format!("sweep:Keyboard<Echo,{}> product, deviation bound {}", S::NAME, bound), json!({"product_states": st.states, "transitions": st.transitions, "panics": st.panics})));
}

/// child entry point
pub fn worker(tier: &str, result_path: &str) -> i32 {
    let thorough = tier == "thorough";
    let mut out = Out { evaluations: 0, states: 0, transitions: 0, nontrivial: 0, parts: vec![], viol: vec![] };
    scan_graph::<ScancodeSet2>(&mut out);
    scan_graph::<ScancodeSet1>(&mut out);
    scan_graph::<Keyboard<Echo, ScancodeSet2>>(&mut out);
    scan_graph::<Keyboard<Echo, ScancodeSet1>>(&mut out);
    frame_graph(&mut out);
    stream_hunts(&mut out, thorough);
    kb_words::<ScancodeSet2>(&mut out);
    kb_words::<ScancodeSet1>(&mut out);
    ev_graph(&mut out);
    layouts(&mut out);
    decoder_histories(&mut out, thorough);
    let bound = if thorough { 2 } else { 1 };
    kb_sweep::<ScancodeSet2>(&mut out, bound);
    kb_sweep::<ScancodeSet1>(&mut out, bound);
    chunk("done");
    let doc = json!({
        "evaluations": out.evaluations, "states": out.states, "transitions": out.transitions, "nontrivial": out.nontrivial,
        "parts": out.parts.iter().map(|(n, v)| json!({"name": n, "coverage": v})).collect::<Vec<_>>(),
        "violations": out.viol, "bound": bound,
    });
    if std::fs::write(result_path, serde_json::to_string(&doc).unwrap()).is_err() {
        return 2;
    }
    0
}

pub fn c08(ctx: &mut Ctx) -> (u64, String) {
    ctx.assume("harness and pc-keyboard compiled with overflow-checks=true, debug-assertions=true, panic=unwind (harness/Cargo.toml [profile.release])");
    ctx.assume("reachable states are taken from the explorations (hook identity), so declared-but-unreachable states (Set 1 unimplemented!() arm) raise no alarm unless a change makes them reachable");
    let exe = std::env::current_exe().expect("current_exe");
    let result_path = crate::report::verif_dir().join("target").join(format!("c08-result-{}.json", std::process::id()));
    let _ = std::fs::create_dir_all(result_path.parent().unwrap());
    let _ = std::fs::remove_file(&result_path);
    let tier = ctx.tier.name();
    let mut child = Command::new(exe)
        .arg("c08-worker")
        .arg(tier)
        .arg(&result_path)
        .stdout(Stdio::piped())
        .stderr(Stdio::null())
        .spawn()
        .expect("spawn worker");
    let stdout = child.stdout.take().unwrap();
    let (tx, rx) = mpsc::channel::<String>();
    std::thread::spawn(move || {
        for line in BufReader::new(stdout).lines().map_while(Result::ok) {
            if tx.send(line).is_err() {
                break;
            }
        }
    });
    let watchdog = Duration::from_secs(if ctx.thorough() { 1800 } else { 300 });
    let mut last_chunk = "(start)".to_string();
    let mut chunks = vec![];
    let mut hung = false;
    loop {
        match rx.recv_timeout(watchdog) {
            Ok(line) => {
                if let Some(c) = line.strip_prefix("CHUNK ") {
                    last_chunk = c.to_string();
                    chunks.push(c.to_string());
                }
            }
            Err(mpsc::RecvTimeoutError::Timeout) => {
                hung = true;
                let _ = child.kill();
                break;
            }
            Err(mpsc::RecvTimeoutError::Disconnected) => break,
        }
    }
    let status = child.wait();
    let ok_exit = matches!(&status, Ok(s) if s.success());
    ctx.set("chunks_journalled", json!(chunks));
    let mut nontrivial = 0;
    if hung {
        ctx.violation(
            &format!("hang/{}", crate::report::sanitize(&last_chunk)),
            &format!("the exploration made no progress for {} s inside chunk '{}': some operation does not return", watchdog.as_secs(), last_chunk),
            Replay { parts: vec![], expected: "every operation returns".into(), observed_last: None },
        );
        ctx.exhaustive = false;
    } else if !ok_exit || last_chunk != "done" {
        ctx.violation(
            &format!("abort/{}", crate::report::sanitize(&last_chunk)),
            &format!("the exploration process terminated abnormally ({:?}) inside chunk '{}': an operation aborted the process (stack overflow, abort or out-of-memory) instead of returning", status, last_chunk),
            Replay { parts: vec![], expected: "every operation returns".into(), observed_last: None },
        );
        ctx.exhaustive = false;
    }
    if let Ok(s) = std::fs::read_to_string(&result_path) {
        if let Ok(v) = serde_json::from_str::<Value>(&s) {
            ctx.evaluations += v["evaluations"].as_u64().unwrap_or(0);
            ctx.states += v["states"].as_u64().unwrap_or(0);
            ctx.transitions += v["transitions"].as_u64().unwrap_or(0);
            nontrivial = v["nontrivial"].as_u64().unwrap_or(0);
            ctx.set("deviation_bound_completed", v["bound"].clone());
            for p in v["parts"].as_array().cloned().unwrap_or_default() {
                ctx.part(p["name"].as_str().unwrap_or("?"), p["coverage"].clone());
            }
            for x in v["violations"].as_array().cloned().unwrap_or_default() {
                let ops: Vec<Op> = x["ops"].as_array().map(|a| a.iter().filter_map(|o| o.as_str().and_then(Op::parse)).collect()).unwrap_or_default();
                ctx.violation(
                    x["key"].as_str().unwrap_or("?"),
                    x["text"].as_str().unwrap_or("?"),
                    Replay::one(x["component"].as_str().unwrap_or("?"), ops, "returns normally", None),
                );
            }
        }
    } else if !hung && ok_exit {
        ctx.machinery("C08 worker left no result file");
    }
    let _ = std::fs::remove_file(&result_path);
    ctx.sample_run("set1", &["byte:E1", "byte:F0", "byte:F0"]);
    ctx.sample_run("ps2", &["word:FFFF", "word:8000"]);
    ctx.sample_run("layout:anyref:jis109", &["map:Oem13:511:Map", "map:Numpad5:0:Ignore"]);
    ctx.sample(json!({"component": "set1", "state": "after E1", "input": "every byte 00..FF", "oracle": "returns (no panic)"}));
    ctx.sample(json!({"component": "ps2", "input": "add_word(0xFFFF)", "oracle": "returns (no panic, no shift overflow)"}));
    ctx.sample(json!({"component": "layout:anyref:jis109", "input": "map_keycode(Oem13, all 9 modifiers set, Map)", "oracle": "returns"}));
    let _ = (KeyState::Down, ScancodeSet1::new().advance_state(0));
    (
        nontrivial,
        "every input x every reachable state of every component, executed in a journalling child process under catch_unwind with overflow checks and debug assertions on: both scancode decoders (graph), Ps2Decoder (2047 x 3 + all 65536 words), Keyboard::add_word (all u16 x scancode states), EventDecoder (Echo graph + 10 real layouts x 1024 states x 372 events), 30 layout objects x 124 x 512 x 2, and the Keyboard product at the stated deviation bound; every call counts as a case".into(),
    )
}
