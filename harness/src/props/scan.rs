//! C01, C02 (scancode streams vs. the standard tables), C07 (re-synchronisation), C19
//! (make/break pairing, injectivity).  All four explore the real decoders' complete transition
//! relation; C01/C02 in lock-step with the reference automata R-AUTO2/R-AUTO1.

use crate::common::*;
use crate::explore::*;
use crate::refs::scancodes::*;
use crate::replay::{fmt_ev, Op, Replay};
use crate::report::Ctx;
use pc_keyboard::{Error, HandleControl, KeyEvent, KeyState, Keyboard, ScancodeSet, ScancodeSet1, ScancodeSet2};
use serde_json::json;
use std::collections::{BTreeMap, BTreeSet};
use std::fmt::Debug;
use std::panic::{catch_unwind, AssertUnwindSafe};
use std::sync::Arc;

pub type EvR = Result<Option<KeyEvent>, Error>;

/// Anything that consumes scancode bytes: a bare decoder or a whole Keyboard via add_byte.
pub trait ByteDev: Clone + PartialEq + Debug + Send + Sync + 'static {
    const SET: u8;
    fn fresh() -> Self;
    /// every other public way to obtain a fresh object (`Default::default()`), with the component name the replay
    /// interpreter builds it by
    fn other_constructors() -> Vec<(Self, String)> {
        vec![]
    }
    fn feed(&mut self, b: u8) -> EvR;
    fn component() -> String;
}
impl ByteDev for ScancodeSet1 {
    const SET: u8 = 1;
    fn fresh() -> Self {
        ScancodeSet1::new()
    }
    fn other_constructors() -> Vec<(Self, String)> {
        vec![(ScancodeSet1::default(), "set1-default".into())]
    }
    fn feed(&mut self, b: u8) -> EvR {
        self.advance_state(b)
    }
    fn component() -> String {
        "set1".into()
    }
}
impl ByteDev for ScancodeSet2 {
    const SET: u8 = 2;
    fn fresh() -> Self {
        ScancodeSet2::new()
    }
    fn other_constructors() -> Vec<(Self, String)> {
        vec![(ScancodeSet2::default(), "set2-default".into())]
    }
    fn feed(&mut self, b: u8) -> EvR {
        self.advance_state(b)
    }
    fn component() -> String {
        "set2".into()
    }
}
impl ByteDev for Keyboard<Echo, ScancodeSet1> {
    const SET: u8 = 1;
    fn fresh() -> Self {
        Keyboard::new(ScancodeSet1::new(), Echo(0), HandleControl::MapLettersToUnicode)
    }
    fn feed(&mut self, b: u8) -> EvR {
        self.add_byte(b)
    }
    fn component() -> String {
        "kb:echo-0:set1:Map".into()
    }
}
impl ByteDev for Keyboard<Echo, ScancodeSet2> {
    const SET: u8 = 2;
    fn fresh() -> Self {
        Keyboard::new(ScancodeSet2::new(), Echo(0), HandleControl::MapLettersToUnicode)
    }
    fn feed(&mut self, b: u8) -> EvR {
        self.add_byte(b)
    }
    fn component() -> String {
        "kb:echo-0:set2:Map".into()
    }
}

/// The README loop: every byte goes to `add_byte` and every event it yields goes straight on to `process_keyevent`
/// (so the event decoder's modifier state evolves while the scancode stage is observed).
#[derive(Clone, Debug, PartialEq)]
pub struct KbLoop<S: ScancodeSet>(pub Keyboard<Echo, S>);
macro_rules! kbloop {
    ($set:ty, $n:expr, $name:expr) => {
        impl ByteDev for KbLoop<$set> {
            const SET: u8 = $n;
            fn fresh() -> Self {
                KbLoop(Keyboard::new(<$set>::new(), Echo(0), HandleControl::MapLettersToUnicode))
            }
            fn feed(&mut self, b: u8) -> EvR {
                let r = self.0.add_byte(b);
                if let Ok(Some(ev)) = &r {
                    let _ = self.0.process_keyevent(ev.clone());
                }
                r
            }
            fn component() -> String {
                format!("kbloop:echo-0:{}:Map", $name)
            }
        }
    };
}
kbloop!(ScancodeSet2, 2, "set2");
kbloop!(ScancodeSet1, 1, "set1");

/// Like `KbLoop`, but every byte is preceded by a line glitch and the driver's timeout recovery on the same
/// Keyboard: `clear(); add_bit(false); clear()`. For a correct Keyboard that is a no-op as far as scancode decoding
/// is concerned (clear() resets only the bit framing), so the lock-step with R-AUTO must hold unchanged.
#[derive(Clone, Debug, PartialEq)]
pub struct KbNoisy<S: ScancodeSet>(pub Keyboard<Echo, S>);
macro_rules! kbnoisy {
    ($set:ty, $n:expr, $name:expr) => {
        impl ByteDev for KbNoisy<$set> {
            const SET: u8 = $n;
            fn fresh() -> Self {
                KbNoisy(Keyboard::new(<$set>::new(), Echo(0), HandleControl::MapLettersToUnicode))
            }
            fn feed(&mut self, b: u8) -> EvR {
                self.0.clear();
                let _ = self.0.add_bit(false);
                self.0.clear();
                let r = self.0.add_byte(b);
                if let Ok(Some(ev)) = &r {
                    let _ = self.0.process_keyevent(ev.clone());
                }
                r
            }
            fn component() -> String {
                format!("kbnoisy:echo-0:{}:Map", $name)
            }
        }
    };
}
kbnoisy!(ScancodeSet2, 2, "set2");
kbnoisy!(ScancodeSet1, 1, "set1");

/// feed under catch_unwind; a panic is rendered as a distinct result string
pub fn feed_guarded<D: ByteDev>(d: &mut D, b: u8) -> Result<EvR, String> {
    catch_unwind(AssertUnwindSafe(|| d.feed(b))).map_err(crate::replay::panic_text)
}

/// reference context, uniform over both sets: (table, brk) — Set 1 never sets brk
pub type RCtx = Ctx2;

pub fn ref_step(set: u8, c: RCtx, b: u8) -> (Allowed, RCtx) {
    if set == 2 {
        auto2(c, b)
    } else {
        let (a, t) = auto1(c.table, b);
        (a, Ctx2 { table: t, brk: false })
    }
}

pub fn edge_key(set: u8, c: RCtx, b: u8) -> String {
    if set == 2 {
        format!("set2/{}{}/0x{:02X}", CTX_NAMES[c.table as usize], if c.brk { "+F0" } else { "" }, b)
    } else if c.table == PLAIN && (b == 0xE0 || b == 0xE1) {
        format!("set1/plain/0x{:02X}/prefix", b)
    } else {
        format!("set1/{}/0x{:02X}/{}", CTX_NAMES[c.table as usize], b & 0x7F, if b & 0x80 != 0 { "break" } else { "make" })
    }
}

// ---- Engine A system: real decoder x reference automaton -------------------------------------

pub struct ScanSys<D: ByteDev> {
    pub alphabet: Vec<u8>,
    pub _d: std::marker::PhantomData<D>,
}
impl<D: ByteDev> ScanSys<D> {
    pub fn new() -> Self {
        ScanSys { alphabet: (0..=255u8).collect(), _d: std::marker::PhantomData }
    }
}

impl<D: ByteDev> Sys for ScanSys<D> {
    type S = (Rid<D>, RCtx);
    type A = u8;
    type O = Result<EvR, String>;
    fn init(&self) -> Self::S {
        (Rid(D::fresh()), CTX2_INIT)
    }
    fn alphabet(&self) -> &[u8] {
        &self.alphabet
    }
    fn step(&self, s: &Self::S, a: &u8) -> Step<Self::S, Self::O> {
        let mut d = s.0 .0.clone();
        let out = feed_guarded(&mut d, *a);
        let (allowed, nctx) = ref_step(D::SET, s.1, *a);
        let ok = match &out {
            Ok(r) => allowed.admits(r),
            Err(_) => false,
        };
        let bad = if ok {
            None
        } else {
            let observed = match &out {
                Ok(r) => fmt_ev(r),
                Err(p) => p.clone(),
            };
            Some(Bad {
                key: edge_key(D::SET, s.1, *a),
                text: format!(
                    "{}: in reference context {}{} byte 0x{:02X} must give {} but the code gives {}",
                    D::component(),
                    CTX_NAMES[s.1.table as usize],
                    if s.1.brk { "+F0" } else { "" },
                    a,
                    allowed.text(),
                    observed
                ),
                expected: allowed.text(),
                observed,
            })
        };
        Step { next: (Rid(d), nctx), out, bad }
    }
}

fn report_graph_bads<D: ByteDev>(ctx: &mut Ctx, g: &Graph<ScanSys<D>>, sys: &ScanSys<D>) {
    for (si, ai, b) in &g.bads {
        let mut ops: Vec<Op> = g.path_to(*si).iter().map(|a| Op::Byte(sys.alphabet[*a])).collect();
        ops.push(Op::Byte(sys.alphabet[*ai]));
        ctx.violation(&b.key, &b.text, Replay::one(&D::component(), ops, &b.expected, Some(b.observed.clone())));
    }
}

/// Lock-step BFS of one device against R-AUTO; returns (states, transitions, ref contexts seen,
/// keys seen Down, keys seen Up)
fn lockstep_bfs<D: ByteDev>(ctx: &mut Ctx, label: &str) -> (usize, u64) {
    let sys = Arc::new(ScanSys::<D>::new());
    let (g, sr, errs) = explore_both(sys.clone(), true, 40_000);
    for e in errs {
        ctx.machinery(&format!("{}: {}", label, e));
    }
    report_graph_bads(ctx, &g, &sys);
    let ref_ctxs: BTreeSet<RCtx> = g.states.iter().map(|s| s.1).collect();
    let mut down = BTreeSet::new();
    let mut up = BTreeSet::new();
    let mut single = BTreeSet::new();
    let mut unknown = 0u64;
    let mut noevent = 0u64;
    for row in &g.outs {
        for o in row {
            match o {
                Ok(Ok(Some(e))) => {
                    match e.state {
                        KeyState::Down => down.insert(e.code),
                        KeyState::Up => up.insert(e.code),
                        KeyState::SingleShot => single.insert(e.code),
                    };
                }
                Ok(Ok(None)) => noevent += 1,
                Ok(Err(_)) => unknown += 1,
                Err(_) => {}
            }
        }
    }
    let expect_ctx = if D::SET == 2 { 6 } else { 3 };
    if g.capped {
        ctx.cap_hit(label, 40_000);
    } else {
        ctx.expect(ref_ctxs.len() == expect_ctx, &format!("{}: all {} reference prefix contexts visited (saw {})", label, expect_ctx, ref_ctxs.len()));
        ctx.expect(g.edges == g.states.len() as u64 * 256, &format!("{}: transitions == states x 256", label));
    }
    ctx.states += g.states.len() as u64;
    ctx.transitions += g.edges;
    ctx.traces_validated += g.edges;
    ctx.evaluations += g.edges;
    ctx.part(
        label,
        json!({
            "engine": "A (own BFS + stateright 0.31 BFS cross-check)",
            "product_states": g.states.len(),
            "transitions": g.edges,
            "max_depth": g.max_depth,
            "stateright_unique_states": sr.unique_states,
            "stateright_generated": sr.generated,
            "stateright_max_depth": sr.max_depth,
            "reference_contexts_visited": ref_ctxs.len(),
            "keys_seen_down": down.len(),
            "keys_seen_up": up.len(),
            "keys_seen_singleshot": single.len(),
            "unknown_edges": unknown,
            "noevent_edges": noevent,
            "violating_edges": g.bads.len(),
        }),
    );
    (g.states.len(), g.edges)
}

// ---- Engine B: stream tree in lock-step with R-AUTO -----------------------------------------

pub struct TreeBad {
    pub key: String,
    pub text: String,
    pub path: Vec<u8>,
    pub expected: String,
    pub observed: String,
}

/// One tree level. `only` restricts this level to a single byte (used to split the work over the
/// first byte). With `guard` every call of the subject runs under catch_unwind and a panic is a
/// result like any other (it differs from every reference result).
fn tree_rec<D: ByteDev>(d: &D, c: RCtx, depth: usize, max: usize, only: Option<u8>, guard: bool, path: &mut Vec<u8>, n: &mut u64, bads: &mut Vec<TreeBad>, nbad: &mut u64) {
    let (lo, hi) = match only {
        Some(b) => (b, b),
        None => (0u8, 255u8),
    };
    for b in lo..=hi {
        let mut d2 = d.clone();
        let r: Result<EvR, String> = if guard { feed_guarded(&mut d2, b) } else { Ok(d2.feed(b)) };
        *n += 1;
        let (allowed, nc) = ref_step(D::SET, c, b);
        let ok = matches!(&r, Ok(x) if allowed.admits(x));
        if !ok {
            *nbad += 1;
            let obs = match &r {
                Ok(x) => fmt_ev(x),
                Err(p) => p.clone(),
            };
            if bads.len() < 64 {
                let mut p = path.clone();
                p.push(b);
                bads.push(TreeBad {
                    key: edge_key(D::SET, c, b),
                    text: format!("{}: after stream {:02X?}, byte 0x{:02X} must give {} but the code gives {}", D::component(), path, b, allowed.text(), obs),
                    path: p,
                    expected: allowed.text(),
                    observed: obs,
                });
            }
        }
        if r.is_err() {
            continue; // the object may be half-updated after a panic: do not build on it
        }
        if depth + 1 < max {
            path.push(b);
            tree_rec(&d2, nc, depth + 1, max, None, guard, path, n, bads, nbad);
            path.pop();
        }
    }
}

/// byte streams up to `max` with every call guarded: returns (positions checked, streams that panic)
pub fn panic_streams<D: ByteDev>(max: usize) -> (u64, Vec<(Vec<u8>, String)>) {
    let results = par_chunks(256, |first| {
        let mut n = 0u64;
        let mut nbad = 0u64;
        let mut bads = vec![];
        let mut path = vec![];
        tree_rec(&D::fresh(), CTX2_INIT, 0, max, Some(first as u8), true, &mut path, &mut n, &mut bads, &mut nbad);
        (n, bads)
    });
    let mut total = 0;
    let mut out = vec![];
    for (n, bads) in results {
        total += n;
        for b in bads {
            if b.observed.starts_with("PANIC") {
                out.push((b.path, b.observed));
            }
        }
    }
    (total, out)
}

/// all byte streams of length <= max, depth-first with prefix sharing, split over the first byte
fn stream_tree<D: ByteDev>(ctx: &mut Ctx, label: &str, max: usize) {
    let results = par_chunks(256, |first| {
        let run = |guard: bool| {
            let mut n = 0u64;
            let mut nbad = 0u64;
            let mut bads = vec![];
            let mut path = vec![];
            tree_rec(&D::fresh(), CTX2_INIT, 0, max, Some(first as u8), guard, &mut path, &mut n, &mut bads, &mut nbad);
            (n, nbad, bads)
        };
        // fast path without per-call guards; if anything panics, redo this chunk with every call guarded
        match catch_unwind(AssertUnwindSafe(|| run(false))) {
            Ok(r) => (r, false),
            Err(_) => (run(true), true),
        }
    });
    let mut total = 0u64;
    let mut nbad = 0u64;
    let mut slow = 0;
    for ((n, nb, bads), was_slow) in results {
        total += n;
        nbad += nb;
        slow += was_slow as u32;
        for b in bads {
            let ops = b.path.iter().map(|x| Op::Byte(*x)).collect();
            ctx.violation(&b.key, &b.text, Replay::one(&D::component(), ops, &b.expected, Some(b.observed)));
        }
    }
    ctx.evaluations += total;
    ctx.traces_validated += total;
    ctx.part(label, json!({"engine": "B stream tree", "max_stream_length": max, "stream_positions_checked": total, "violating_positions": nbad, "chunks_rerun_with_panic_guards": slow}));
}

// ---- "after a prior sequence": every complete sequence, then every short continuation --------------------------
// The closed BFS covers all histories as long as the decoder's state space is small. A change that gives the decoder
// a large hidden state (a sequence buffer, a bitmap of held keys) pushes the search into its state cap, and the stream
// tree from a fresh decoder only reaches length 3-4. This sweep starts deeper: it first plays one complete sequence
// (every byte string of <= 3 bytes that takes the reference automaton from its initial context back to it: a make or
// break code with any prefix, known or unknown, or a rejected sequence), optionally two of them, and then every
// continuation of <= 2 bytes (plus E0/E1 F0 xx for Set 2). C01/C02 judge the continuation against R-AUTO from its
// initial context, C07 against a fresh real decoder.

/// all byte strings of <= 3 bytes that take R-AUTO from the initial context back to it (and not before)
pub fn prior_sequences(set: u8) -> Vec<Vec<u8>> {
    fn rec(set: u8, c: RCtx, path: &mut Vec<u8>, out: &mut Vec<Vec<u8>>) {
        for b in 0..=255u8 {
            let (_, nc) = ref_step(set, c, b);
            path.push(b);
            if nc == CTX2_INIT {
                out.push(path.clone());
            } else if path.len() < 3 {
                rec(set, nc, path, out);
            }
            path.pop();
        }
    }
    let mut out = vec![];
    rec(set, CTX2_INIT, &mut vec![], &mut out);
    out
}

/// the priors whose last byte is one of a few representative codes (modifiers, fake shifts, Pause/PrintScreen/SysRq
/// parts, a twin-key code, a letter, the status bytes, an unassigned code)
pub fn reduced_priors(set: u8) -> Vec<Vec<u8>> {
    let reps: &[u8] = if set == 2 {
        &[0x12, 0x14, 0x77, 0x7C, 0x75, 0x1C, 0x11, 0x00, 0xAA, 0x83, 0xFF]
    } else {
        &[0x2A, 0xAA, 0x1D, 0x9D, 0x45, 0xC5, 0x37, 0xB7, 0x48, 0xC8, 0x1E, 0x9E, 0x54, 0xD4, 0x38, 0xB8, 0x00, 0xFF]
    };
    prior_sequences(set).into_iter().filter(|p| reps.contains(p.last().unwrap())).collect()
}

/// mode 0: continuation judged against R-AUTO (C01/C02); mode 1: against a fresh real decoder (C07)
fn after_prior<D: ByteDev>(ctx: &mut Ctx, label: &str, mode: u8, chain2: bool, max_chain: u32) {
    let jobs: Vec<Vec<u8>> = if chain2 {
        // two priors in a row: (reduced x all) and (all x reduced)
        let r = reduced_priors(D::SET);
        let all = prior_sequences(D::SET);
        let mut v = vec![];
        for (xs, ys) in [(&r, &all), (&all, &r)] {
            for a in xs.iter() {
                for b in ys.iter() {
                    let mut x = a.clone();
                    x.extend(b);
                    v.push(x);
                }
            }
        }
        v.sort();
        v.dedup();
        v
    } else {
        prior_sequences(D::SET)
    };
    let results = par_chunks(jobs.len(), |ji| {
        let prior = &jobs[ji];
        let run = |guard: bool| -> (u64, Vec<TreeBad>) {
            let mut n = 0u64;
            let mut nbad = 0u64;
            let mut bads: Vec<TreeBad> = vec![];
            let mut d = D::fresh();
            for b in prior {
                let r = if guard { feed_guarded(&mut d, *b) } else { Ok(d.feed(*b)) };
                if r.is_err() {
                    return (n, bads); // a panic inside the prior itself is the plain trees' / C08's business
                }
            }
            let mut path = prior.clone();
            let exts: &[[u8; 2]] = if D::SET == 2 { &[[0xE0, 0xF0], [0xE1, 0xF0]] } else { &[] };
            if mode == 0 {
                tree_rec(&d, CTX2_INIT, 0, 2, None, guard, &mut path, &mut n, &mut bads, &mut nbad);
                for e in exts {
                    let mut d2 = d.clone();
                    let mut c = CTX2_INIT;
                    let mut ok = true;
                    for b in e {
                        let r = if guard { feed_guarded(&mut d2, *b) } else { Ok(d2.feed(*b)) };
                        ok &= r.is_ok();
                        c = ref_step(D::SET, c, *b).1;
                        path.push(*b);
                    }
                    if ok {
                        tree_rec(&d2, c, 0, 1, None, guard, &mut path, &mut n, &mut bads, &mut nbad);
                    }
                    path.truncate(prior.len());
                }
            } else {
                let sh = vec![(prior.len(), D::fresh())];
                c07_tree_rec(&d, &sh, 0, max_chain, 0, 2, None, guard, &mut path, &mut n, &mut bads);
                for e in exts {
                    let mut d2 = d.clone();
                    let mut s2 = D::fresh();
                    let mut ok = true;
                    for b in e {
                        let r = if guard { feed_guarded(&mut d2, *b) } else { Ok(d2.feed(*b)) };
                        let r2 = if guard { feed_guarded(&mut s2, *b) } else { Ok(s2.feed(*b)) };
                        ok &= r.is_ok() && r2.is_ok() && r == r2; // a difference here was already reported by the depth-2 part
                        path.push(*b);
                    }
                    if ok {
                        c07_tree_rec(&d2, &[(prior.len(), s2)], 2, max_chain, 0, 1, None, guard, &mut path, &mut n, &mut bads);
                    }
                    path.truncate(prior.len());
                }
            }
            bads.truncate(4);
            (n, bads)
        };
        match catch_unwind(AssertUnwindSafe(|| run(false))) {
            Ok(r) => (r, false),
            Err(_) => (run(true), true),
        }
    });
    let mut total = 0u64;
    let mut nb = 0usize;
    let mut slow = 0;
    for ((n, bads), was_slow) in results {
        total += n;
        slow += was_slow as u32;
        for b in bads {
            nb += 1;
            let ops = b.path.iter().map(|x| Op::Byte(*x)).collect();
            ctx.violation(&b.key, &b.text, Replay::one(&D::component(), ops, &b.expected, Some(b.observed)));
        }
    }
    ctx.evaluations += total;
    ctx.traces_validated += total;
    ctx.part(
        label,
        json!({"engine": "B stream tree started after complete prior sequences", "prior_sequences": jobs.len(), "priors_chained": if chain2 { 2 } else { 1 },
               "oracle": if mode == 0 { "R-AUTO from its initial context" } else { "a fresh real decoder" },
               "continuation": if D::SET == 2 { "every stream of <= 2 bytes, plus E0 F0 xx and E1 F0 xx" } else { "every stream of <= 2 bytes" },
               "stream_positions_checked": total, "violations_recorded": nb, "jobs_rerun_with_panic_guards": slow}),
    );
}

// ---- pumped streams: u = w^k for every word w of length <= 2 (<= 3 thorough), k up to `reps` ------------------
// A closed BFS covers unbounded histories only as long as the state space stays small; state that grows with
// the history (a counter, a log, a cache) pushes the interesting states beyond any state cap. Repeating every
// short word many times reaches exactly those states: the 9th unknown byte, the 256th error.

pub struct PumpBad {
    pub key: String,
    pub text: String,
    pub word: Vec<u8>,
    pub reps: usize,
    pub upto: usize,
    pub expected: String,
    pub observed: String,
}

/// mode 0: lock-step with R-AUTO (C01/C02); mode 1: self-referential resync oracle (C07): if the word ends in an
/// event or error on a fresh decoder, every repetition must answer exactly like the first; mode 2: panics only (C08)
pub fn pump<D: ByteDev>(max_len: usize, reps: usize, mode: u8) -> (u64, Vec<PumpBad>) {
    let n_words: usize = (1..=max_len).map(|l| 256usize.pow(l as u32)).sum();
    let chunks = 256usize;
    let results = par_chunks(chunks, |c| {
        let mut n = 0u64;
        let mut bads: Vec<PumpBad> = vec![];
        let mut wi = c;
        while wi < n_words {
            // decode word index -> bytes
            let mut idx = wi;
            let mut len = 1;
            loop {
                let cnt = 256usize.pow(len as u32);
                if idx < cnt {
                    break;
                }
                idx -= cnt;
                len += 1;
            }
            let word: Vec<u8> = (0..len).map(|i| ((idx >> (8 * i)) & 0xFF) as u8).collect();
            wi += chunks;
            let mut d = D::fresh();
            let mut ctx = CTX2_INIT;
            let mut first: Vec<Result<EvR, String>> = vec![];
            let mut stop = false;
            for rep in 0..reps {
                for (bi, b) in word.iter().enumerate() {
                    let r = feed_guarded(&mut d, *b);
                    n += 1;
                    let (allowed, nc) = ref_step(D::SET, ctx, *b);
                    ctx = nc;
                    let obs = match &r {
                        Ok(x) => fmt_ev(x),
                        Err(p) => p.clone(),
                    };
                    let mut fail: Option<(String, String)> = None; // (kind, expected)
                    match mode {
                        0 => {
                            if !matches!(&r, Ok(x) if allowed.admits(x)) {
                                fail = Some(("pumped".into(), allowed.text()));
                            }
                        }
                        1 => {
                            if rep == 0 {
                                first.push(r.clone());
                            } else if first.last().map_or(false, |l| !matches!(l, Ok(Ok(None)))) && first[bi] != r {
                                let e = match &first[bi] {
                                    Ok(x) => fmt_ev(x),
                                    Err(p) => p.clone(),
                                };
                                fail = Some(("resync-pumped".into(), format!("{} (what the first repetition gave)", e)));
                            }
                        }
                        _ => {
                            if r.is_err() {
                                fail = Some(("panic-pumped".into(), "returns normally".into()));
                            }
                        }
                    }
                    if let Some((kind, expected)) = fail {
                        if bads.len() < 6 {
                            let hexw: Vec<String> = word.iter().map(|x| format!("{:02X}", x)).collect();
                            bads.push(PumpBad {
                                key: format!("{}/{}/{}", D::component(), kind, hexw.join("")),
                                text: format!(
                                    "{}: the byte word [{}] repeated: in repetition {} its byte {} must give {} but gives {}",
                                    D::component(), hexw.join(" "), rep + 1, bi + 1, expected, obs
                                ),
                                word: word.clone(),
                                reps: rep + 1,
                                upto: bi + 1,
                                expected,
                                observed: obs,
                            });
                        }
                        stop = true;
                        break;
                    }
                    if r.is_err() {
                        stop = true;
                        break;
                    }
                }
                if stop {
                    break;
                }
            }
        }
        (n, bads)
    });
    let mut total = 0;
    let mut out = vec![];
    for (n, b) in results {
        total += n;
        out.extend(b);
    }
    (total, out)
}

pub fn pump_ops(b: &PumpBad) -> Vec<Op> {
    let mut ops = vec![];
    for rep in 0..b.reps {
        let upto = if rep + 1 == b.reps { b.upto } else { b.word.len() };
        ops.extend(b.word[..upto].iter().map(|x| Op::Byte(*x)));
    }
    ops
}

fn pump_report<D: ByteDev>(ctx: &mut Ctx, label: &str, max_len: usize, reps: usize, mode: u8) {
    let (n, bads) = pump::<D>(max_len, reps, mode);
    let nb = bads.len();
    for b in bads {
        let ops = pump_ops(&b);
        ctx.violation(&b.key, &b.text, Replay::one(&D::component(), ops, &b.expected, Some(b.observed.clone())));
    }
    ctx.evaluations += n;
    ctx.traces_validated += n;
    ctx.part(label, json!({"engine": "B pumped streams w^k", "max_word_length": max_len, "repetitions": reps, "stream_positions_checked": n, "violations_recorded": nb}));
}

fn readme_note(ctx: &mut Ctx) {
    let repo = crate::repo_dir();
    match readme_check(&repo) {
        Some(r) => {
            ctx.set("readme_rows", json!(r.rows));
            ctx.set("readme_rows_agree", json!(r.agree));
            ctx.set("readme_rows_differ", json!(r.differ));
            ctx.note(&format!(
                "README conversion table: {} rows parsed, {} agree with the embedded reference, {} differ (2 known README typos: NumpadEnter Set 2, Apps Set 1) - consistency note only",
                r.rows,
                r.agree,
                r.differ.len()
            ));
        }
        None => ctx.note("README.md not readable; reference/README cross-check skipped"),
    }
}

/// Objects obtained through any other public constructor (`Default`) must behave exactly like `new()`: identical by
/// identity, or else every stream of <= 3 bytes is answered identically by both.
pub fn other_constructors_check<D: ByteDev>(ctx: &mut Ctx, label: &str) {
    for (obj, comp) in D::other_constructors() {
        if obj == D::fresh() {
            ctx.part(&format!("{}:{}", label, comp), json!({"equal_to_new_by_identity": true}));
            continue;
        }
        // behavioural comparison, all streams of <= 3 bytes
        let mut n = 0u64;
        let mut first_diff: Option<(Vec<u8>, String, String)> = None;
        fn rec<D: ByteDev>(a: &D, b: &D, depth: usize, path: &mut Vec<u8>, n: &mut u64, diff: &mut Option<(Vec<u8>, String, String)>) {
            for x in 0..=255u8 {
                if diff.is_some() {
                    return;
                }
                let (mut a2, mut b2) = (a.clone(), b.clone());
                let (ra, rb) = (feed_guarded(&mut a2, x), feed_guarded(&mut b2, x));
                *n += 1;
                if ra != rb {
                    let f = |r: &Result<EvR, String>| match r {
                        Ok(v) => fmt_ev(v),
                        Err(p) => p.clone(),
                    };
                    let mut p = path.clone();
                    p.push(x);
                    *diff = Some((p, f(&ra), f(&rb)));
                    return;
                }
                if depth + 1 < 3 && ra.is_ok() {
                    path.push(x);
                    rec(&a2, &b2, depth + 1, path, n, diff);
                    path.pop();
                }
            }
        }
        rec(&obj, &D::fresh(), 0, &mut vec![], &mut n, &mut first_diff);
        ctx.evaluations += n;
        if let Some((path, got, want)) = first_diff {
            let ops: Vec<Op> = path.iter().map(|x| Op::Byte(*x)).collect();
            ctx.violation(
                &format!("{}/default-differs-from-new/{}", D::component(), bytes_hex(&path).replace(' ', "")),
                &format!("{}: a decoder obtained through Default::default() answers the stream {} with {} at its last byte; one built with new() answers {}", D::component(), bytes_hex(&path), got, want),
                Replay { parts: vec![(comp.clone(), ops.clone()), (D::component(), ops)], expected: format!("as new(): {}", want), observed_last: None },
            );
        }
        ctx.part(&format!("{}:{}", label, comp), json!({"equal_to_new_by_identity": false, "stream_positions_compared": n}));
    }
}

fn count_nontrivial(set: u8) -> u64 {
    // distinct (reference context, byte) pairs whose reference result is a key event
    let ctxs: Vec<RCtx> = if set == 2 {
        vec![0, 1, 2].into_iter().flat_map(|t| [false, true].into_iter().map(move |b| Ctx2 { table: t, brk: b })).collect()
    } else {
        vec![0, 1, 2].into_iter().map(|t| Ctx2 { table: t, brk: false }).collect()
    };
    let mut n = 0;
    for c in ctxs {
        for b in 0..=255u8 {
            if matches!(ref_step(set, c, b).0, Allowed::Event(..) | Allowed::EventNamed(..)) {
                n += 1;
            }
        }
    }
    n
}

pub fn c01(ctx: &mut Ctx) -> (u64, String) {
    ctx.trust("R-SET2: IBM/Microsoft Set 2 table = README conversion table with the NumpadEnter row corrected to E0 5A (harness/src/refs/scancodes.rs TABLE)");
    ctx.trust("R-AUTO2: prefix grammar [E0|E1] [F0] code as a 6-context automaton (refs/scancodes.rs auto2)");
    ctx.assume("F0 00 and F0 AA are outside the statement: an Up/SingleShot of the status key or UnknownKeyCode are all accepted there");
    let extras = load_readme_extras(&crate::repo_dir());
    ctx.set("readme_rows_for_keys_unknown_to_the_harness", json!(extras));
    lockstep_bfs::<ScancodeSet2>(ctx, "bfs:ScancodeSet2 x R-AUTO2");
    lockstep_bfs::<Keyboard<Echo, ScancodeSet2>>(ctx, "bfs:Keyboard::add_byte(Set2) x R-AUTO2");
    lockstep_bfs::<KbLoop<ScancodeSet2>>(ctx, "bfs:Keyboard add_byte+process_keyevent loop (Set2) x R-AUTO2");
    lockstep_bfs::<KbNoisy<ScancodeSet2>>(ctx, "bfs:Keyboard loop with a glitch + clear() before every byte (Set2) x R-AUTO2");
    other_constructors_check::<ScancodeSet2>(ctx, "constructors");
    let depth = if ctx.thorough() { 4 } else { 3 };
    stream_tree::<ScancodeSet2>(ctx, "tree:ScancodeSet2", depth);
    stream_tree::<Keyboard<Echo, ScancodeSet2>>(ctx, "tree:Keyboard::add_byte(Set2)", if ctx.thorough() { 3 } else { 2 });
    crate::props::tlaconf::set2_conformance(ctx, true);
    after_prior::<ScancodeSet2>(ctx, "after-prior:ScancodeSet2", 0, false, 2);
    if ctx.thorough() {
        after_prior::<ScancodeSet2>(ctx, "after-two-priors:ScancodeSet2", 0, true, 2);
        after_prior::<KbLoop<ScancodeSet2>>(ctx, "after-prior:Keyboard add_byte+process_keyevent loop (Set2)", 0, false, 2);
    }
    pump_report::<ScancodeSet2>(ctx, "pump:ScancodeSet2", 2, 300, 0);
    if ctx.thorough() {
        pump_report::<ScancodeSet2>(ctx, "pump:ScancodeSet2 (3-byte words)", 3, 12, 0);
        pump_report::<Keyboard<Echo, ScancodeSet2>>(ctx, "pump:Keyboard::add_byte(Set2)", 2, 300, 0);
    }
    readme_note(ctx);
    ctx.sample_run("set2", &["byte:E0", "byte:F0", "byte:70", "byte:E1", "byte:14", "byte:77", "byte:AA", "byte:E0", "byte:E0"]);
    ctx.sample_run("kb:echo-0:set2:Map", &["byte:F0", "byte:1C", "byte:02"]);
    ctx.sample(json!({"stream": ["E0", "F0", "70"], "reference": "Ok(None), Ok(None), Ok(Insert Up)"}));
    ctx.sample(json!({"stream": ["E1", "14", "77"], "reference": "Ok(None), Ok(RControl2 Down), Ok(NumpadLock Down)"}));
    ctx.sample(json!({"stream": ["AA", "E0", "E0"], "reference": "Ok(PowerOnTestOk SingleShot), Ok(None), Err(UnknownKeyCode)"}));
    (
        count_nontrivial(2),
        "closed BFS of (real ScancodeSet2 | real Keyboard via add_byte) x R-AUTO2 over all 256 bytes from every reachable product state, plus every byte stream up to the stated length; a case is one (reference context, byte) transition, non-trivial when the reference maps it to a key event".into(),
    )
}

pub fn c02(ctx: &mut Ctx) -> (u64, String) {
    ctx.trust("R-SET1: IBM/Microsoft Set 1 table = README conversion table with the Apps row corrected to E0 5D; JIS keys at unprefixed 70/73/79/7B/7D (refs/scancodes.rs TABLE)");
    ctx.trust("R-AUTO1: prefix grammar [E0|E1] byte, bit 7 = release, as a 3-context automaton (refs/scancodes.rs auto1)");
    let extras = load_readme_extras(&crate::repo_dir());
    ctx.set("readme_rows_for_keys_unknown_to_the_harness", json!(extras));
    lockstep_bfs::<ScancodeSet1>(ctx, "bfs:ScancodeSet1 x R-AUTO1");
    lockstep_bfs::<Keyboard<Echo, ScancodeSet1>>(ctx, "bfs:Keyboard::add_byte(Set1) x R-AUTO1");
    lockstep_bfs::<KbLoop<ScancodeSet1>>(ctx, "bfs:Keyboard add_byte+process_keyevent loop (Set1) x R-AUTO1");
    lockstep_bfs::<KbNoisy<ScancodeSet1>>(ctx, "bfs:Keyboard loop with a glitch + clear() before every byte (Set1) x R-AUTO1");
    other_constructors_check::<ScancodeSet1>(ctx, "constructors");
    let depth = if ctx.thorough() { 4 } else { 3 };
    stream_tree::<ScancodeSet1>(ctx, "tree:ScancodeSet1", depth);
    stream_tree::<Keyboard<Echo, ScancodeSet1>>(ctx, "tree:Keyboard::add_byte(Set1)", if ctx.thorough() { 3 } else { 2 });
    crate::props::tlaconf::set1_conformance(ctx, true);
    after_prior::<ScancodeSet1>(ctx, "after-prior:ScancodeSet1", 0, false, 1);
    if ctx.thorough() {
        after_prior::<ScancodeSet1>(ctx, "after-two-priors:ScancodeSet1", 0, true, 1);
        after_prior::<KbLoop<ScancodeSet1>>(ctx, "after-prior:Keyboard add_byte+process_keyevent loop (Set1)", 0, false, 1);
    }
    pump_report::<ScancodeSet1>(ctx, "pump:ScancodeSet1", 2, 300, 0);
    if ctx.thorough() {
        pump_report::<ScancodeSet1>(ctx, "pump:ScancodeSet1 (3-byte words)", 3, 12, 0);
        pump_report::<Keyboard<Echo, ScancodeSet1>>(ctx, "pump:Keyboard::add_byte(Set1)", 2, 300, 0);
    }
    readme_note(ctx);
    ctx.sample_run("set1", &["byte:E0", "byte:1C", "byte:9C", "byte:70", "byte:F0", "byte:E1", "byte:1D", "byte:55"]);
    ctx.sample_run("kb:echo-0:set1:Map", &["byte:E0", "byte:5D", "byte:E0", "byte:E0"]);
    ctx.sample(json!({"stream": ["E0", "1C", "9C"], "reference": "Ok(None), Ok(NumpadEnter Down), Ok(Return Up)"}));
    ctx.sample(json!({"stream": ["70", "F0"], "reference": "Ok(Oem11 Down), Ok(Oem11 Up)"}));
    (
        count_nontrivial(1),
        "closed BFS of (real ScancodeSet1 | real Keyboard via add_byte) x R-AUTO1 over all 256 bytes from every reachable product state, plus every byte stream up to the stated length; a case is one (reference context, byte) transition, non-trivial when the reference maps it to a key event".into(),
    )
}

// ---- C07 --------------------------------------------------------------------------------------

/// The real decoder alone (no reference): state identity through the hook.
pub struct BareSys<D: ByteDev> {
    pub alphabet: Vec<u8>,
    pub _d: std::marker::PhantomData<D>,
}
impl<D: ByteDev> BareSys<D> {
    pub fn new() -> Self {
        BareSys { alphabet: (0..=255u8).collect(), _d: std::marker::PhantomData }
    }
}
impl<D: ByteDev> Sys for BareSys<D> {
    type S = Rid<D>;
    type A = u8;
    type O = Result<EvR, String>;
    fn init(&self) -> Self::S {
        Rid(D::fresh())
    }
    fn alphabet(&self) -> &[u8] {
        &self.alphabet
    }
    fn step(&self, s: &Self::S, a: &u8) -> Step<Self::S, Self::O> {
        let mut d = s.0.clone();
        let out = feed_guarded(&mut d, *a);
        let bad = None;
        Step { next: Rid(d), out, bad }
    }
}

fn c07_graph<D: ByteDev>(ctx: &mut Ctx, label: &str, max_chain: u32) {
    let sys = Arc::new(BareSys::<D>::new());
    let (g, sr, errs) = explore_both(sys.clone(), true, 20_000);
    for e in errs {
        ctx.machinery(&format!("{}: {}", label, e));
    }
    if g.capped {
        ctx.cap_hit(label, 20_000);
    }
    // every terminal edge (event or error) must end in a state behaviourally equivalent to the
    // initial one: identical by identity, or else no byte sequence may distinguish them.
    let mut by_identity = 0u64;
    let mut by_bisim = 0u64;
    let mut bad_edges = 0u64;
    let mut verdict_cache: std::collections::HashMap<usize, Option<Vec<usize>>> = std::collections::HashMap::new();
    for s in 0..g.expanded {
        for ai in 0..g.outs[s].len() {
            if matches!(g.outs[s][ai], Ok(Ok(None))) {
                continue;
            }
            let t = g.succ[s][ai] as usize;
            if t == 0 {
                by_identity += 1;
                continue;
            }
            let d = verdict_cache.entry(t).or_insert_with(|| distinguish(&g, t, 0)).clone();
            match d {
                None => by_bisim += 1,
                Some(dseq) => {
                    bad_edges += 1;
                    let mut pre: Vec<u8> = g.path_to(s).iter().map(|a| sys.alphabet[*a]).collect();
                    pre.push(sys.alphabet[ai]);
                    let cont: Vec<u8> = dseq.iter().map(|a| sys.alphabet[*a]).collect();
                    let mut full = pre.clone();
                    full.extend(&cont);
                    // outputs at the distinguishing byte
                    let mut x = t;
                    let mut y = 0usize;
                    for a in &dseq[..dseq.len() - 1] {
                        x = g.succ[x][*a] as usize;
                        y = g.succ[y][*a] as usize;
                    }
                    let la = dseq[dseq.len() - 1];
                    let fo = |o: &Result<EvR, String>| match o { Ok(r) => fmt_ev(r), Err(p) => p.clone() };
                    let got = fo(&g.outs[x][la]);
                    let want = fo(&g.outs[y][la]);
                    ctx.violation(
                        &format!("{}/resync/after:{}", D::component(), bytes_hex(&pre)),
                        &format!(
                            "{}: stream {} ends in {} yet the decoder is not back in its initial condition: the continuation {} then yields {} where a fresh decoder yields {}",
                            D::component(), bytes_hex(&pre), fo(&g.outs[s][ai]), bytes_hex(&cont), got, want
                        ),
                        Replay::one(&D::component(), full.iter().map(|b| Op::Byte(*b)).collect(), &format!("as a fresh decoder: {}", want), Some(got)),
                    );
                }
            }
        }
    }
    // longest chain of "no event" edges (must be acyclic and <= max_chain)
    let n = g.expanded;
    let mut longest = vec![0u32; n];
    // iterate to fixpoint with a bound that detects cycles
    let mut cyclic = false;
    for round in 0..=(n as u32 + 1) {
        let mut changed = false;
        for s in 0..n {
            for (ai, o) in g.outs[s].iter().enumerate() {
                if matches!(o, Ok(Ok(None))) {
                    let t = g.succ[s][ai] as usize;
                    if t >= n {
                        continue;
                    }
                    let v = longest[t] + 1;
                    if v > longest[s] {
                        longest[s] = v;
                        changed = true;
                    }
                }
            }
        }
        if !changed {
            break;
        }
        if round == n as u32 + 1 {
            cyclic = true;
        }
    }
    let worst = (0..n).max_by_key(|s| longest[*s]).unwrap_or(0);
    if cyclic || longest.iter().any(|l| *l > max_chain) {
        // build a witness: follow no-event edges from `worst`
        let mut ops: Vec<Op> = g.path_to(worst).iter().map(|a| Op::Byte(sys.alphabet[*a])).collect();
        let mut s = worst;
        let mut obs = String::new();
        for _ in 0..(max_chain + 1) {
            let mut found = false;
            for (ai, o) in g.outs[s].iter().enumerate() {
                let t = g.succ[s][ai] as usize;
                if t >= n {
                    continue;
                }
                if matches!(o, Ok(Ok(None))) && (cyclic || longest[t] + 1 == longest[s]) {
                    ops.push(Op::Byte(sys.alphabet[ai]));
                    obs = "Ok(None)".into();
                    s = t;
                    found = true;
                    break;
                }
            }
            if !found {
                break;
            }
        }
        ctx.violation(
            &format!("{}/no-event-chain", D::component()),
            &format!(
                "{}: {} consecutive bytes can be answered 'no event yet' (limit {}){}",
                D::component(),
                if cyclic { "unboundedly many".to_string() } else { longest[worst].to_string() },
                max_chain,
                if cyclic { " - the no-event sub-graph has a cycle" } else { "" }
            ),
            Replay::one(&D::component(), ops, &format!("at most {} consecutive Ok(None)", max_chain), Some(obs)),
        );
    }
    ctx.states += n as u64;
    ctx.transitions += g.edges;
    ctx.evaluations += g.edges;
    ctx.part(
        label,
        json!({
            "engine": "A (own BFS + stateright cross-check)",
            "real_states": n,
            "transitions": g.edges,
            "max_depth": g.max_depth,
            "stateright_unique_states": sr.unique_states,
            "terminal_edges": g.outs.iter().flatten().filter(|o| !matches!(o, Ok(Ok(None)))).count(),
            "longest_no_event_chain": longest.iter().max().copied().unwrap_or(0),
            "limit": max_chain,
            "terminal_edges_ending_in_new_by_identity": by_identity,
            "terminal_edges_ending_in_state_bisimilar_to_new": by_bisim,
            "violating_edges": bad_edges,
        }),
    );
}

/// Shortest action sequence on which states `a` and `b` of the explored graph produce different
/// outputs (None = bisimilar).
pub fn distinguish<Y: Sys>(g: &Graph<Y>, a: usize, b: usize) -> Option<Vec<usize>>
where
    Y::O: PartialEq,
{
    use std::collections::{HashMap, VecDeque};
    let mut seen: HashMap<(usize, usize), Option<((usize, usize), usize)>> = HashMap::new();
    let mut q = VecDeque::new();
    seen.insert((a, b), None);
    q.push_back((a, b));
    while let Some((x, y)) = q.pop_front() {
        if x == y {
            continue;
        }
        if x >= g.expanded || y >= g.expanded {
            continue; // capped graph: behaviour beyond the cap is unknown
        }
        for ai in 0..g.outs[x].len() {
            if g.outs[x][ai] != g.outs[y][ai] {
                let mut seq = vec![ai];
                let mut cur = (x, y);
                while let Some(Some((p, pa))) = seen.get(&cur) {
                    seq.push(*pa);
                    cur = *p;
                }
                seq.reverse();
                return Some(seq);
            }
            let nx = (g.succ[x][ai] as usize, g.succ[y][ai] as usize);
            if !seen.contains_key(&nx) {
                seen.insert(nx, Some(((x, y), ai)));
                q.push_back(nx);
            }
        }
    }
    None
}

/// hook-free differential tree: after every terminal result a shadow *fresh* decoder is started;
/// all shadows must answer exactly like the main decoder from then on.
fn c07_tree_rec<D: ByteDev>(
    main: &D,
    shadows: &[(usize, D)],
    run: u32,
    max_chain: u32,
    depth: usize,
    max: usize,
    only: Option<u8>,
    guard: bool,
    path: &mut Vec<u8>,
    n: &mut u64,
    bads: &mut Vec<TreeBad>,
) {
    let (lo, hi) = match only {
        Some(b) => (b, b),
        None => (0u8, 255u8),
    };
    let tx = |r: &Result<EvR, String>| match r {
        Ok(x) => fmt_ev(x),
        Err(p) => p.clone(),
    };
    for b in lo..=hi {
        let mut m2 = main.clone();
        let r: Result<EvR, String> = if guard { feed_guarded(&mut m2, b) } else { Ok(m2.feed(b)) };
        *n += 1;
        // advance clones of the shadows
        let mut sh2: Vec<(usize, D)> = Vec::with_capacity(shadows.len() + 1);
        for (start, sh) in shadows.iter() {
            let mut s2 = sh.clone();
            let rs: Result<EvR, String> = if guard { feed_guarded(&mut s2, b) } else { Ok(s2.feed(b)) };
            if rs != r && bads.len() < 64 {
                let mut p = path.clone();
                p.push(b);
                bads.push(TreeBad {
                    key: format!("{}/resync/after:{}", D::component(), bytes_hex(&path[..*start])),
                    text: format!(
                        "{}: after stream {} (which ended in an event or error) the continuation {} yields {} at its last byte, but a fresh decoder yields {}",
                        D::component(),
                        bytes_hex(&path[..*start]),
                        bytes_hex(&p[*start..]),
                        tx(&r),
                        tx(&rs)
                    ),
                    path: p,
                    expected: format!("same as fresh decoder: {}", tx(&rs)),
                    observed: tx(&r),
                });
            }
            if rs.is_ok() {
                sh2.push((*start, s2));
            }
        }
        if r.is_err() {
            if bads.len() < 64 {
                let mut p = path.clone();
                p.push(b);
                bads.push(TreeBad {
                    key: format!("{}/panic/{}", D::component(), bytes_hex(&p).replace(' ', "")),
                    text: format!("{}: stream {} panics: {}", D::component(), bytes_hex(&p), tx(&r)),
                    path: p,
                    expected: "an event, an error or 'no event yet'".into(),
                    observed: tx(&r),
                });
            }
            continue;
        }
        let terminal = !matches!(r, Ok(Ok(None)));
        let run2 = if terminal { 0 } else { run + 1 };
        if run2 > max_chain && bads.len() < 64 {
            let mut p = path.clone();
            p.push(b);
            bads.push(TreeBad {
                key: format!("{}/no-event-chain", D::component()),
                text: format!("{}: stream {} ends with {} consecutive 'no event yet' results (limit {})", D::component(), bytes_hex(&p), run2, max_chain),
                path: p,
                expected: format!("at most {} consecutive Ok(None)", max_chain),
                observed: tx(&r),
            });
        }
        if depth + 1 < max {
            if terminal {
                sh2.push((path.len() + 1, D::fresh()));
            }
            path.push(b);
            c07_tree_rec(&m2, &sh2, run2, max_chain, depth + 1, max, None, guard, path, n, bads);
            path.pop();
        }
    }
}

fn bytes_hex(b: &[u8]) -> String {
    let v: Vec<String> = b.iter().map(|x| format!("{:02X}", x)).collect();
    format!("[{}]", v.join(" "))
}

fn c07_tree<D: ByteDev>(ctx: &mut Ctx, label: &str, max: usize, max_chain: u32) {
    let results = par_chunks(256, |first| {
        let run = |guard: bool| {
            let mut n = 0u64;
            let mut bads = vec![];
            let mut path = vec![];
            c07_tree_rec(&D::fresh(), &[], 0, max_chain, 0, max, Some(first as u8), guard, &mut path, &mut n, &mut bads);
            (n, bads)
        };
        match catch_unwind(AssertUnwindSafe(|| run(false))) {
            Ok(r) => (r, false),
            Err(_) => (run(true), true),
        }
    });
    let mut total = 0u64;
    let mut nb = 0usize;
    let mut slow = 0;
    for ((n, bads), was_slow) in results {
        total += n;
        nb += bads.len();
        slow += was_slow as u32;
        for b in bads {
            let ops = b.path.iter().map(|x| Op::Byte(*x)).collect();
            ctx.violation(&b.key, &b.text, Replay::one(&D::component(), ops, &b.expected, Some(b.observed)));
        }
    }
    ctx.evaluations += total;
    ctx.traces_validated += total;
    ctx.part(label, json!({"engine": "B differential stream tree (hook-free)", "max_stream_length": max, "stream_positions_checked": total, "violations_recorded": nb, "chunks_rerun_with_panic_guards": slow}));
}

pub fn c07(ctx: &mut Ctx) -> (u64, String) {
    ctx.assume("state identity of the decoders = derived PartialEq over all fields (hook H2); the differential stream tree needs no hook");
    c07_graph::<ScancodeSet2>(ctx, "graph:ScancodeSet2", 2);
    c07_graph::<ScancodeSet1>(ctx, "graph:ScancodeSet1", 1);
    c07_graph::<Keyboard<Echo, ScancodeSet2>>(ctx, "graph:Keyboard::add_byte(Set2)", 2);
    c07_graph::<Keyboard<Echo, ScancodeSet1>>(ctx, "graph:Keyboard::add_byte(Set1)", 1);
    other_constructors_check::<ScancodeSet2>(ctx, "constructors");
    other_constructors_check::<ScancodeSet1>(ctx, "constructors");
    let depth = if ctx.thorough() { 4 } else { 3 };
    c07_tree::<ScancodeSet2>(ctx, "difftree:ScancodeSet2", depth, 2);
    c07_tree::<ScancodeSet1>(ctx, "difftree:ScancodeSet1", depth, 1);
    crate::props::tlaconf::set2_conformance(ctx, false);
    crate::props::tlaconf::set1_conformance(ctx, false);
    after_prior::<ScancodeSet2>(ctx, "after-prior-resync:ScancodeSet2", 1, false, 2);
    after_prior::<ScancodeSet1>(ctx, "after-prior-resync:ScancodeSet1", 1, false, 1);
    if ctx.thorough() {
        after_prior::<ScancodeSet2>(ctx, "after-two-priors-resync:ScancodeSet2", 1, true, 2);
        after_prior::<ScancodeSet1>(ctx, "after-two-priors-resync:ScancodeSet1", 1, true, 1);
    }
    pump_report::<ScancodeSet2>(ctx, "pump-resync:ScancodeSet2", 2, 300, 1);
    pump_report::<ScancodeSet1>(ctx, "pump-resync:ScancodeSet1", 2, 300, 1);
    if ctx.thorough() {
        pump_report::<ScancodeSet2>(ctx, "pump-resync:ScancodeSet2 (3-byte words)", 3, 12, 1);
        pump_report::<ScancodeSet1>(ctx, "pump-resync:ScancodeSet1 (3-byte words)", 3, 12, 1);
    }
    ctx.sample_run("set2", &["byte:E0", "byte:00", "byte:1C", "byte:E1", "byte:F0", "byte:FF", "byte:E0", "byte:75"]);
    ctx.sample_run("set1", &["byte:E1", "byte:E1", "byte:1D", "byte:E0", "byte:5E", "byte:1C"]);
    ctx.sample(json!({"stream": ["E0", "00", "1C"], "check": "E0 00 is an error; afterwards 1C must decode as a fresh decoder would (A Down in Set 2)"}));
    ctx.sample(json!({"stream": ["E1", "F0", "FF", "E0"], "check": "after the error on FF, E0 is a prefix again"}));
    // non-trivial = terminal edges out of non-initial states + all continuation checks; measured as terminal edges
    let nt = ctx.parts.iter().filter_map(|p| p["coverage"]["terminal_edges"].as_u64()).sum::<u64>();
    (
        nt,
        "every (reachable real decoder state, byte) edge of both decoders (alone and inside Keyboard); a case is non-trivial when the edge reports an event or error (its target must equal new()); plus every stream up to the stated length with a fresh-decoder shadow started after each event/error".into(),
    )
}

// ---- C19 --------------------------------------------------------------------------------------

fn seq<D: ByteDev>(bytes: &[u8]) -> Result<EvR, String> {
    let mut d = D::fresh();
    let mut last = Ok(Ok(None));
    for b in bytes {
        last = feed_guarded(&mut d, *b);
    }
    last
}

fn c19_set<D: ByteDev>(ctx: &mut Ctx) -> u64 {
    let set = D::SET;
    let mut makes: BTreeMap<String, Vec<(u8, u8)>> = BTreeMap::new(); // key name -> (table, code)
    let mut pairs = 0u64;
    let mut nontrivial = 0u64;
    for table in [PLAIN, E0, E1] {
        let prefix: Vec<u8> = match table {
            E0 => vec![0xE0],
            E1 => vec![0xE1],
            _ => vec![],
        };
        let codes: Vec<u8> = if set == 2 { (0..=255u8).collect() } else { (0..=0x7Fu8).collect() };
        for code in codes {
            let mut mk = prefix.clone();
            let mut bk = prefix.clone();
            if set == 2 {
                // prefix bytes in prefix position are not complete sequences
                if code == 0xF0 || (table == PLAIN && (code == 0xE0 || code == 0xE1)) {
                    continue;
                }
                mk.push(code);
                bk.push(0xF0);
                bk.push(code);
            } else {
                mk.push(code);
                bk.push(code | 0x80);
            }
            let m = seq::<D>(&mk);
            let set1_break_is_prefix = set == 1 && table == PLAIN && (code == 0x60 || code == 0x61);
            let b = if set1_break_is_prefix { Ok(Ok(None)) } else { seq::<D>(&bk) };
            pairs += 1;
            ctx.evaluations += 2;
            let key = format!("{}/{}/0x{:02X}/pairing", D::component(), CTX_NAMES[table as usize], code);
            let mut fail = |ctx: &mut Ctx, why: String, ops_b: &Vec<u8>, obs: String| {
                let ops: Vec<Op> = ops_b.iter().map(|x| Op::Byte(*x)).collect();
                ctx.violation(&key, &why, Replay { parts: vec![(D::component(), mk.iter().map(|x| Op::Byte(*x)).collect()), (D::component(), ops)], expected: "make is K Down <=> break is K Up (same K); error <=> error".into(), observed_last: Some(obs) });
            };
            let fm = match &m { Ok(r) => fmt_ev(r), Err(p) => p.clone() };
            let fb = match &b { Ok(r) => fmt_ev(r), Err(p) => p.clone() };
            match (&m, &b) {
                (Err(_), _) | (_, Err(_)) => fail(ctx, format!("{}: make {} -> {}, break {} -> {} (panic)", D::component(), bytes_hex(&mk), fm, bytes_hex(&bk), fb), &bk, fb.clone()),
                (Ok(mr), Ok(br)) => {
                    if set1_break_is_prefix {
                        // break form is not a complete sequence: the make form must not be a key
                        if let Ok(Some(e)) = mr {
                            fail(ctx, format!("{}: {} decodes as {:?} {:?} but its break byte 0x{:02X} is a prefix, so the key could never be released", D::component(), bytes_hex(&mk), e.code, e.state, code | 0x80), &mk, fm.clone());
                        }
                        continue;
                    }
                    match (mr, br) {
                        (Ok(Some(me)), _) if me.state == KeyState::SingleShot => {
                            nontrivial += 1;
                            makes.entry(format!("{:?}", me.code)).or_default().push((table, code));
                        }
                        (Ok(Some(me)), Ok(Some(be))) if me.state == KeyState::Down && be.state == KeyState::Up && me.code == be.code => {
                            nontrivial += 1;
                            makes.entry(format!("{:?}", me.code)).or_default().push((table, code));
                        }
                        (Err(_), Err(_)) => {}
                        (Ok(None), _) | (_, Ok(None)) => fail(ctx, format!("{}: complete sequence {} -> {} / {} -> {}: a complete sequence returned 'no event'", D::component(), bytes_hex(&mk), fm, bytes_hex(&bk), fb), &bk, fb.clone()),
                        _ => {
                            if let Ok(Some(me)) = mr {
                                makes.entry(format!("{:?}", me.code)).or_default().push((table, code));
                            }
                            fail(ctx, format!("{}: make {} decodes as {} but break {} decodes as {}", D::component(), bytes_hex(&mk), fm, bytes_hex(&bk), fb), &bk, fb.clone())
                        }
                    }
                }
            }
        }
    }
    // injectivity
    for (k, v) in &makes {
        if v.len() > 1 {
            let seqs: Vec<String> = v.iter().map(|(t, c)| format!("{} 0x{:02X}", CTX_NAMES[*t as usize], c)).collect();
            let mut parts = vec![];
            for (t, c) in v {
                let mut bytes = match *t { E0 => vec![0xE0], E1 => vec![0xE1], _ => vec![] };
                bytes.push(*c);
                parts.push((D::component(), bytes.iter().map(|x| Op::Byte(*x)).collect()));
            }
            ctx.violation(
                &format!("{}/injectivity/{}", D::component(), k),
                &format!("{}: distinct complete sequences {} all decode to key {}", D::component(), seqs.join(", "), k),
                Replay { parts, expected: "distinct sequences denote distinct keys".into(), observed_last: None },
            );
        }
    }
    ctx.part(&format!("pairing:{}", D::component()), json!({"sequence_pairs": pairs, "key_sequences": nontrivial, "distinct_keys": makes.len()}));

    // The same pairing after any one preceding complete sequence (a decoder that remembers something about the last
    // key - a memo, a counter - must not let it leak into what the next make/break pair names)
    let mut all_seqs: Vec<Vec<u8>> = vec![];
    for table in [PLAIN, E0, E1] {
        let prefix: Vec<u8> = match table {
            E0 => vec![0xE0],
            E1 => vec![0xE1],
            _ => vec![],
        };
        let codes: Vec<u8> = if set == 2 { (0..=255u8).collect() } else { (0..=0x7Fu8).collect() };
        for code in codes {
            if set == 2 && (code == 0xF0 || (table == PLAIN && (code == 0xE0 || code == 0xE1))) {
                continue;
            }
            if set == 1 && table == PLAIN && (code == 0x60 || code == 0x61) {
                continue;
            }
            let mut mk = prefix.clone();
            mk.push(code);
            all_seqs.push(mk);
        }
    }
    let brk_of = |mk: &Vec<u8>| -> Vec<u8> {
        let mut b = mk.clone();
        let c = b.pop().unwrap();
        if set == 2 {
            b.push(0xF0);
            b.push(c);
        } else {
            b.push(c | 0x80);
        }
        b
    };
    // priors: every make and every break form
    let mut priors: Vec<Vec<u8>> = vec![];
    for s in &all_seqs {
        priors.push(s.clone());
        priors.push(brk_of(s));
    }
    let results = par_chunks(priors.len(), |pi| {
        let prior = &priors[pi];
        let mut n = 0u64;
        let mut bads = vec![];
        let mut base = D::fresh();
        let mut ok = true;
        for b in prior {
            if feed_guarded(&mut base, *b).is_err() {
                ok = false;
            }
        }
        if !ok {
            return (n, bads);
        }
        for mk in &all_seqs {
            let bk = brk_of(mk);
            let run = |bytes: &Vec<u8>| {
                let mut d = base.clone();
                let mut last = Ok(Ok(None));
                for b in bytes {
                    last = feed_guarded(&mut d, *b);
                }
                last
            };
            let m = run(mk);
            let b = run(&bk);
            n += 2;
            let good = match (&m, &b) {
                (Ok(Ok(Some(me))), _) if me.state == KeyState::SingleShot => true,
                (Ok(Ok(Some(me))), Ok(Ok(Some(be)))) => me.state == KeyState::Down && be.state == KeyState::Up && me.code == be.code,
                (Ok(Err(_)), Ok(Err(_))) => true,
                _ => false,
            };
            if !good && bads.len() < 3 {
                let f = |r: &Result<EvR, String>| match r {
                    Ok(x) => fmt_ev(x),
                    Err(p) => p.clone(),
                };
                bads.push((prior.clone(), mk.clone(), bk, f(&m), f(&b)));
            }
        }
        (n, bads)
    });
    let mut n2 = 0;
    for (n, bads) in results {
        n2 += n;
        for (prior, mk, bk, fm, fb) in bads {
            let mut o1: Vec<Op> = prior.iter().map(|x| Op::Byte(*x)).collect();
            let mut o2 = o1.clone();
            o1.extend(mk.iter().map(|x| Op::Byte(*x)));
            o2.extend(bk.iter().map(|x| Op::Byte(*x)));
            ctx.violation(
                &format!("{}/pairing-after/{}/{}", D::component(), bytes_hex(&prior).replace(' ', ""), bytes_hex(&mk).replace(' ', "")),
                &format!("{}: after the sequence {}, make {} decodes as {} but break {} decodes as {}", D::component(), bytes_hex(&prior), bytes_hex(&mk), fm, bytes_hex(&bk), fb),
                Replay { parts: vec![(D::component(), o1), (D::component(), o2)], expected: "make is K Down <=> break is K Up (same K); error <=> error".into(), observed_last: Some(fb) },
            );
        }
    }
    ctx.evaluations += n2;
    ctx.part(&format!("pairing-after-one-prior-sequence:{}", D::component()), json!({"prior_sequences": priors.len(), "sequences": all_seqs.len(), "decodes": n2}));
    nontrivial
}

/// One-to-one, with the sequences taken from the decoder itself and not from the grammar: every byte stream of <= 3
/// bytes on a fresh decoder in which only the LAST byte yields a result and that result is a key event is a "complete
/// sequence as the decoder sees it"; no two different such streams may denote the same (key, press/release). This finds
/// a second spelling that the grammar-driven enumeration above cannot name (e.g. prefixes accepted in either order).
fn c19_selfderived<D: ByteDev>(ctx: &mut Ctx) {
    let results = par_chunks(256, |b1| {
        let b1 = b1 as u8;
        let mut found: Vec<(String, Vec<u8>)> = vec![];
        let mut n = 0u64;
        let mut d1 = D::fresh();
        let Ok(r1) = feed_guarded(&mut d1, b1) else { return (n, found) };
        n += 1;
        match r1 {
            Ok(Some(e)) if e.state != KeyState::SingleShot => found.push((format!("{:?} {:?}", e.code, e.state), vec![b1])),
            Ok(None) => {
                for b2 in 0..=255u8 {
                    let mut d2 = d1.clone();
                    let Ok(r2) = feed_guarded(&mut d2, b2) else { continue };
                    n += 1;
                    match r2 {
                        Ok(Some(e)) if e.state != KeyState::SingleShot => found.push((format!("{:?} {:?}", e.code, e.state), vec![b1, b2])),
                        Ok(None) => {
                            for b3 in 0..=255u8 {
                                let mut d3 = d2.clone();
                                let Ok(r3) = feed_guarded(&mut d3, b3) else { continue };
                                n += 1;
                                if let Ok(Some(e)) = r3 {
                                    if e.state != KeyState::SingleShot {
                                        found.push((format!("{:?} {:?}", e.code, e.state), vec![b1, b2, b3]));
                                    }
                                }
                            }
                        }
                        _ => {}
                    }
                }
            }
            _ => {}
        }
        (n, found)
    });
    let mut by_event: BTreeMap<String, Vec<Vec<u8>>> = BTreeMap::new();
    let mut total = 0u64;
    for (n, found) in results {
        total += n;
        for (ev, seq) in found {
            by_event.entry(ev).or_default().push(seq);
        }
    }
    let mut dup = 0u64;
    for (ev, seqs) in &by_event {
        if seqs.len() > 1 {
            dup += 1;
            let names: Vec<String> = seqs.iter().map(|s| bytes_hex(s)).collect();
            let mut parts = vec![];
            for s in seqs.iter().take(3) {
                parts.push((D::component(), s.iter().map(|x| Op::Byte(*x)).collect::<Vec<Op>>()));
            }
            ctx.violation(
                &format!("{}/two-spellings/{}", D::component(), ev.replace(' ', "-")),
                &format!("{}: the {} different complete sequences {} all decode to the same event {} (on a fresh decoder, no result before the last byte)", D::component(), seqs.len(), names.join(", "), ev),
                Replay { parts, expected: "distinct complete sequences denote distinct events".into(), observed_last: None },
            );
        }
    }
    ctx.evaluations += total;
    ctx.part(
        &format!("self-derived:{} complete sequences of <= 3 bytes as the decoder itself defines them", D::component()),
        json!({"engine": "B stream tree", "stream_positions_checked": total, "distinct_key_events": by_event.len(), "events_with_more_than_one_spelling": dup}),
    );
}

pub fn c19(ctx: &mut Ctx) -> (u64, String) {
    let a = c19_set::<ScancodeSet2>(ctx);
    let b = c19_set::<ScancodeSet1>(ctx);
    let c = c19_set::<Keyboard<Echo, ScancodeSet2>>(ctx);
    let d = c19_set::<Keyboard<Echo, ScancodeSet1>>(ctx);
    // a decoder obtained through Default::default() must pair makes and breaks like one built with new()
    other_constructors_check::<ScancodeSet2>(ctx, "constructors");
    other_constructors_check::<ScancodeSet1>(ctx, "constructors");
    c19_selfderived::<ScancodeSet2>(ctx);
    c19_selfderived::<ScancodeSet1>(ctx);
    ctx.sample_run("set2", &["byte:E0", "byte:70", "byte:E0", "byte:F0", "byte:70", "byte:83", "byte:F0", "byte:83"]);
    ctx.sample_run("set1", &["byte:60", "byte:E0", "byte:48", "byte:E0", "byte:C8"]);
    ctx.sample(json!({"set": 2, "make": ["E0", "70"], "break": ["E0", "F0", "70"], "check": "Insert Down <=> Insert Up"}));
    ctx.sample(json!({"set": 1, "make": ["60"], "break": ["E0 (prefix)"], "check": "0x60/0x61 must not be keys: their break bytes are the prefixes"}));
    (
        a + b + c + d,
        "both sets x 3 prefix tables x every code, make and break form, fed to fresh real decoders (alone and via Keyboard::add_byte); self-referential oracle (pairing, error<=>error, injectivity of sequence -> key); non-trivial = sequences that decode to a key".into(),
    )
}
