//! `vharness dump-layouts`: human-readable table of what the real layouts type (used while
//! writing R-LAYOUT by hand; never used by a check).
use crate::common::*;
use pc_keyboard::{DecodedKey, HandleControl};

pub fn dump() {
    let levels: [(&str, u16); 6] = [("base", M_NUM), ("shift", M_NUM | M_LSHIFT), ("altgr", M_NUM | M_RALT), ("sh+altgr", M_NUM | M_RALT | M_LSHIFT), ("caps", M_NUM | M_CAPS), ("ctrl(Map)", M_NUM | M_LCTRL)];
    for l in 0..N_LAYOUTS {
        println!("== {}", LAYOUT_NAMES[l]);
        for k in ALL_KEYS {
            let mut cells = vec![];
            let mut any_unicode = false;
            for (i, (_, m)) in levels.iter().enumerate() {
                let mode = if i == 5 { HandleControl::MapLettersToUnicode } else { HandleControl::Ignore };
                let d = map_direct(l, k, &mods_from_bits(*m), mode);
                match d {
                    DecodedKey::Unicode(c) => {
                        any_unicode = true;
                        cells.push(if (c as u32) < 0x20 || c as u32 == 0x7f { format!("U+{:02X}", c as u32) } else { format!("{}", c) });
                    }
                    DecodedKey::RawKey(r) => cells.push(format!("<{:?}>", r)),
                }
            }
            if any_unicode {
                println!("{:<14} {}", key_name(k), cells.join("\t"));
            }
        }
    }
}
