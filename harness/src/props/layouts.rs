//! C03, C09, C10, C11, C12, C15, C16, C17: exhaustive table sweeps over the pure layout functions
//! (30 layout objects x 124 keys x 512 modifier values x 2 modes = 3.8 M points each).

use crate::common::*;
use crate::props::events::{decoder_family, decoder_family_opts, decoder_family_with, family_intermediates, is_modifier_key, mods_paths, EvAct, FamOpts};
use crate::refs::layouts::*;
use crate::replay::{Op, Replay};
use crate::report::Ctx;
use pc_keyboard::{DecodedKey, EventDecoder, HandleControl, KeyCode, KeyEvent, KeyState, Keyboard, Modifiers, ScancodeSet, ScancodeSet1, ScancodeSet2};
use serde_json::json;
use std::collections::{BTreeMap, BTreeSet};
use std::panic::{catch_unwind, AssertUnwindSafe};

pub struct LBad {
    pub key: String,
    pub text: String,
    pub form: usize,
    pub l: usize,
    pub k: KeyCode,
    pub m: u16,
    pub mode: HandleControl,
    pub expected: String,
    pub observed: String,
}

pub struct ChunkOut {
    pub evals: u64,
    pub nontrivial: u64,
    pub bads: Vec<LBad>,
    pub nbad: u64,
    pub extra: BTreeMap<String, u64>,
}
impl ChunkOut {
    fn new() -> Self {
        ChunkOut { evals: 0, nontrivial: 0, bads: vec![], nbad: 0, extra: BTreeMap::new() }
    }
    fn bad(&mut self, b: LBad) {
        self.nbad += 1;
        // keep the first occurrence per key only
        if self.bads.len() < 400 && !self.bads.iter().any(|x| x.key == b.key) {
            self.bads.push(b);
        }
    }
    fn count(&mut self, k: &str, n: u64) {
        *self.extra.entry(k.to_string()).or_insert(0) += n;
    }
}

fn call(form: usize, l: usize, k: KeyCode, mods: &Modifiers, mode: HandleControl) -> Result<DecodedKey, String> {
    catch_unwind(AssertUnwindSafe(|| map_form(form, l, k, mods, mode))).map_err(crate::replay::panic_text)
}
fn otext(r: &Result<DecodedKey, String>) -> String {
    match r {
        Ok(d) => dk_text(d),
        Err(p) => p.clone(),
    }
}
fn chars_text(v: &[char]) -> String {
    let s: Vec<String> = v.iter().map(|c| format!("{:?}", c)).collect();
    s.join(" or ")
}

/// run `f(form, layout)` for all 30 layout objects (direct forms first) and merge
fn for_all_objects<F: Fn(usize, usize) -> ChunkOut + Sync>(ctx: &mut Ctx, label: &str, forms: usize, f: F) -> (u64, u64) {
    let outs = par_chunks(forms * N_LAYOUTS, |i| f(i / N_LAYOUTS, i % N_LAYOUTS));
    let mut evals = 0;
    let mut nt = 0;
    let mut nbad = 0;
    let mut extra: BTreeMap<String, u64> = BTreeMap::new();
    for o in outs {
        evals += o.evals;
        nt += o.nontrivial;
        nbad += o.nbad;
        for (k, v) in o.extra {
            *extra.entry(k).or_insert(0) += v;
        }
        for b in o.bads {
            let comp = format!("layout:{}:{}", FORM_NAMES[b.form], LAYOUT_NAMES[b.l]);
            ctx.violation(&b.key, &format!("[{}] {}", FORM_NAMES[b.form], b.text), Replay::one(&comp, vec![Op::Map(b.k, b.m, b.mode)], &b.expected, Some(b.observed)));
        }
    }
    ctx.evaluations += evals;
    let mut j = json!({"layout_objects": forms * N_LAYOUTS, "points_evaluated": evals, "nontrivial_points": nt, "violating_points": nbad});
    for (k, v) in extra {
        j[k] = json!(v);
    }
    ctx.part(label, j);
    (evals, nt)
}

// ---- C03 ---------------------------------------------------------------------------------------

/// level selected by a modifier value for C03 purposes: Some(0) base, Some(1) shift, Some(2) altgr, None = not constrained
pub fn c03_level(m: u16, mode: HandleControl) -> Option<u8> {
    if r_capslock(m) {
        return None;
    }
    if mode == HandleControl::MapLettersToUnicode && r_ctrl(m) {
        return None; // Ctrl being mapped: C09's territory
    }
    match (r_shift(m), r_altgr(m)) {
        (false, false) => Some(0),
        (true, false) => Some(1),
        (false, true) => Some(2),
        (true, true) => None,
    }
}

/// C03's level for one key: "Ctrl being mapped" (C09's territory) only concerns keys that type an ASCII letter on that layout;
/// on every other key a held Ctrl key in MapLettersToUnicode mode leaves the level selection as it is (seeded round 8)
pub fn c03_level_k(l: usize, k: KeyCode, m: u16, mode: HandleControl) -> Option<u8> {
    if mode == HandleControl::MapLettersToUnicode && r_ctrl(m) && !r_capslock(m) {
        let letter = ref_level(l, k, 0).map_or(true, |b| b.iter().any(|c| c.is_ascii_alphabetic()));
        if !letter {
            return match (r_shift(m), r_altgr(m)) {
                (false, false) => Some(0),
                (true, false) => Some(1),
                (false, true) => Some(2),
                (true, true) => None,
            };
        }
    }
    c03_level(m, mode)
}

/// judge one C03 point; Err((expected text, kind)) on violation; Ok(true) if judged, Ok(false) if unjudged/unconstrained
pub fn c03_judge(l: usize, k: KeyCode, m: u16, mode: HandleControl, out: &Result<DecodedKey, String>, base_out: &Result<DecodedKey, String>) -> Result<bool, (String, &'static str)> {
    let Some(level) = c03_level_k(l, k, m, mode) else { return Ok(false) };
    let (Some(base), Some(shift)) = (ref_level(l, k, 0), ref_level(l, k, 1)) else { return Ok(false) };
    match level {
        0 | 1 => {
            let want = if level == 0 { &base } else { &shift };
            match out {
                Ok(DecodedKey::Unicode(c)) if want.contains(c) => Ok(true),
                _ => Err((format!("Unicode({})", chars_text(want)), if level == 0 { "base" } else { "shift" })),
            }
        }
        _ => {
            // AltGr: either no distinct character (same as the base level output) or the standard's AltGr character
            if out == base_out {
                // no distinct character in this state: fine only if the layout gives this key no distinct AltGr character
                // in the plain AltGr state either ("this holds in every modifier state that selects that level")
                let canon = guarded(|| map_direct(l, k, &mods_from_bits(M_NUM | M_RALT), HandleControl::Ignore));
                let canon_base = guarded(|| map_direct(l, k, &mods_from_bits(M_NUM), HandleControl::Ignore));
                if canon == canon_base || !matches!(canon, Ok(DecodedKey::Unicode(_))) {
                    return Ok(true);
                }
                return Err((format!("{} as with AltGr alone (the layout gives this key a distinct AltGr character, so every modifier state that selects the AltGr level must type it), not the base-level output", otext(&canon)), "altgr-inconsistent"));
            }
            let want = ref_altgr(l, k);
            match out {
                Ok(DecodedKey::Unicode(c)) if want.contains(c) => Ok(true),
                Ok(DecodedKey::Unicode(_)) if want.is_empty() && altgr_unjudged(l) => Ok(false),
                _ => Err((
                    if want.is_empty() {
                        format!("no distinct AltGr character (the standard gives this key none), i.e. the base-level output {}", otext(base_out))
                    } else {
                        format!("the base-level output {} or Unicode({})", otext(base_out), chars_text(&want))
                    },
                    "altgr",
                )),
            }
        }
    }
}

/// "whatever the lock flags are": a modifier value that selects the AltGr level with CapsLock on (no Shift, Ctrl not
/// being mapped). Where the key has a distinct AltGr character with CapsLock off, CapsLock must not take it away.
pub fn c03_caps_altgr_point(m: u16, mode: HandleControl) -> bool {
    r_capslock(m) && !r_shift(m) && r_altgr(m) && !(mode == HandleControl::MapLettersToUnicode && r_ctrl(m))
}

/// judge such a point given the outputs of the same key with CapsLock off at the AltGr level and at the base level
pub fn c03_caps_altgr_judge(out: &Result<DecodedKey, String>, out_nocaps: &Result<DecodedKey, String>, base_nocaps: &Result<DecodedKey, String>) -> Result<bool, String> {
    match out_nocaps {
        Ok(DecodedKey::Unicode(_)) if out_nocaps != base_nocaps => {
            if out == out_nocaps {
                Ok(true)
            } else {
                Err(otext(out_nocaps))
            }
        }
        _ => Ok(false),
    }
}

/// the modifier value selecting the base level in the same lock / Ctrl / hidden context
pub fn base_of(m: u16) -> u16 {
    let mut b = m & !(M_LSHIFT | M_RSHIFT | M_RALT);
    if r_altgr(b) {
        b &= !M_LALT;
    }
    b
}

fn c03_chunk(form: usize, l: usize) -> ChunkOut {
    let mut o = ChunkOut::new();
    for k in main_keys(l) {
        for mode in MODES {
            for m in 0..512u16 {
                if c03_caps_altgr_point(m, mode) {
                    let nc = m & !M_CAPS;
                    let out = call(form, l, k, &mods_from_bits(m), mode);
                    let out_nc = call(form, l, k, &mods_from_bits(nc), mode);
                    let base_nc = call(form, l, k, &mods_from_bits(base_of(nc)), mode);
                    o.evals += 1;
                    match c03_caps_altgr_judge(&out, &out_nc, &base_nc) {
                        Ok(true) => o.nontrivial += 1,
                        Ok(false) => o.count("unjudged_points", 1),
                        Err(want) => o.bad(LBad {
                            key: format!("{}/{}/altgr-capslock", LAYOUT_NAMES[l], key_name(k)),
                            text: format!(
                                "layout {}: key {:?} has the distinct AltGr character {} with CapsLock off; with CapsLock on (modifiers [{}], mode {}) the AltGr level must still type it but gives {}",
                                LAYOUT_NAMES[l], k, want, mods_text(m), mode_name(mode), otext(&out)
                            ),
                            form, l, k, m, mode, expected: want, observed: otext(&out),
                        }),
                    }
                    continue;
                }
                if c03_level_k(l, k, m, mode).is_none() {
                    continue;
                }
                let mods = mods_from_bits(m);
                let out = call(form, l, k, &mods, mode);
                // base-level output in the same lock/alt/hidden context
                let mb = base_of(m);
                let base_out = call(form, l, k, &mods_from_bits(mb), mode);
                o.evals += 1;
                match c03_judge(l, k, m, mode, &out, &base_out) {
                    Ok(true) => o.nontrivial += 1,
                    Ok(false) => o.count("unjudged_points", 1),
                    Err((want, lev)) => o.bad(LBad {
                        key: format!("{}/{}/{}", LAYOUT_NAMES[l], key_name(k), lev),
                        text: format!(
                            "layout {}: key {:?} at the {} level (modifiers [{}], mode {}) must type {} but gives {}",
                            LAYOUT_NAMES[l], k, lev, mods_text(m), mode_name(mode), want, otext(&out)
                        ),
                        form, l, k, m, mode, expected: want, observed: otext(&out),
                    }),
                }
            }
        }
    }
    o
}

/// end-to-end: every character key typed by its real scancode in every reachable modifier state
/// `via`: 0 = bytes through add_byte; 1 = the same with the Set 2 status bytes 00 (key-detection overrun) and AA (self-test
/// passed) arriving between the modifier history and the key; 2 = the key's bytes arrive bit-serially, each frame preceded
/// by a line glitch and clear()
fn c03_e2e<S: ScancodeSet + Clone>(ctx: &mut Ctx, set_name: &str, mk: fn() -> S, set: u8, via: u8) {
    // scancode sequences of keys taken from the real decoder itself (self-derived alphabet)
    let mut seq_of: BTreeMap<String, Vec<u8>> = BTreeMap::new();
    for pre in [vec![], vec![0xE0u8], vec![0xE1u8]] {
        for c in 0..=255u8 {
            if set == 1 && c >= 0x80 {
                continue;
            }
            let mut d = mk();
            let mut bytes = pre.clone();
            bytes.push(c);
            let last = guarded(|| {
                let mut last = Ok(None);
                for b in &bytes {
                    last = d.advance_state(*b);
                }
                last
            })
            .unwrap_or(Ok(None));
            if let Ok(Some(e)) = last {
                if e.state == KeyState::Down {
                    seq_of.entry(key_name(e.code)).or_insert(bytes);
                }
            }
        }
    }
    let brk = |bytes: &Vec<u8>| -> Vec<u8> {
        let mut v = bytes.clone();
        let c = v.pop().unwrap();
        if set == 2 {
            v.push(0xF0);
            v.push(c);
        } else {
            v.push(c | 0x80);
        }
        v
    };
    let paths = mods_paths();
    let res = par_chunks(N_LAYOUTS, |l| {
        let mut n = 0u64;
        let mut nt = 0u64;
        let mut bads: Vec<(usize, u16, HandleControl, KeyCode, Vec<Op>, String, String, &'static str)> = vec![];
        for mode in MODES {
            for m in 0..512u16 {
                let mut kb = Keyboard::new(mk(), Wrap(l as u8), mode);
                let mut pre_bytes: Vec<u8> = vec![];
                let mut reachable = true;
                for (k, s) in &paths[m as usize] {
                    let Some(mkseq) = seq_of.get(&key_name(*k)) else {
                        reachable = false;
                        break;
                    };
                    let bytes = if *s == KeyState::Down { mkseq.clone() } else { brk(mkseq) };
                    let fed = guarded(|| {
                        for b in &bytes {
                            if let Ok(Some(ev)) = kb.add_byte(*b) {
                                let _ = kb.process_keyevent(ev);
                            }
                        }
                    });
                    if fed.is_err() {
                        reachable = false;
                        break;
                    }
                    pre_bytes.extend(bytes);
                }
                if !reachable || bits_from_mods(kb.get_modifiers()) != m {
                    continue; // C04/C01 own that; here we only use states we could actually reach
                }
                for k in main_keys(l) {
                    let Some(mkseq) = seq_of.get(&key_name(k)) else {
                        // no byte sequence of this set decodes to a press of this character key although the standard table
                        // gives it one: the key's characters cannot be typed on this layout at all
                        if via == 0 && m == M_NUM && mode == HandleControl::Ignore {
                            if let Some((tab, code)) = crate::refs::scancodes::ref_code(set, k) {
                                let mut bytes: Vec<Op> = vec![];
                                if tab == crate::refs::scancodes::E0 {
                                    bytes.push(Op::Type(0xE0));
                                }
                                bytes.push(Op::Type(code));
                                let base = guarded(|| map_direct(l, k, &mods_from_bits(M_NUM), mode));
                                bads.push((l, m, mode, k, bytes, otext(&base), "no key event for this key (its standard scancode is not decoded to it)".to_string(), "base"));
                            }
                        }
                        continue;
                    };
                    let mut k2 = kb.clone();
                    let typed = guarded(|| {
                        let mut out = None;
                        if via == 1 {
                            for b in [0x00u8, 0xAA] {
                                if let Ok(Some(ev)) = k2.add_byte(b) {
                                    let _ = k2.process_keyevent(ev);
                                }
                            }
                        }
                        for b in mkseq {
                            let r = if via == 2 { crate::replay::type_bits(&mut k2, *b) } else { k2.add_byte(*b) };
                            if let Ok(Some(ev)) = r {
                                out = k2.process_keyevent(ev);
                            }
                        }
                        out
                    });
                    n += 1;
                    let outr: Result<DecodedKey, String> = match typed {
                        Ok(o) => o.ok_or_else(|| "None".to_string()),
                        Err(p) => Err(p),
                    };
                    let mb = base_of(m);
                    let base_out: Result<DecodedKey, String> = guarded(|| map_direct(l, k, &mods_from_bits(mb), mode));
                    match c03_judge(l, k, m, mode, &outr, &base_out) {
                        Ok(true) => nt += 1,
                        Ok(false) => {}
                        Err((want, lev)) => {
                            if bads.len() < 100 && !bads.iter().any(|b| b.3 == k && b.7 == lev) {
                                let mut bytes: Vec<Op> = pre_bytes.iter().map(|b| Op::Type(*b)).collect();
                                if via == 1 {
                                    bytes.push(Op::Type(0x00));
                                    bytes.push(Op::Type(0xAA));
                                }
                                bytes.extend(mkseq.iter().map(|b| if via == 2 { Op::TypeBits(*b) } else { Op::Type(*b) }));
                                bads.push((l, m, mode, k, bytes, want, otext(&outr), lev));
                            }
                        }
                    }
                }
            }
        }
        (n, nt, bads)
    });
    let mut n = 0;
    let mut nt = 0;
    for (a, b, bads) in res {
        n += a;
        nt += b;
        let how = ["", " after the status bytes 00 and AA", " arriving bit-serially after a line glitch and clear()"][via as usize];
        for (l, m, mode, k, ops, want, got, lev) in bads {
            let comp = format!("kb:wrap-{}:{}:{}", LAYOUT_NAMES[l], set_name, mode_name(mode));
            let obs = crate::replay::run_part(&comp, &ops).pop();
            ctx.violation(
                &format!("{}/{}/{}", LAYOUT_NAMES[l], key_name(k), lev),
                &format!("[end-to-end {}] layout {}: with modifiers [{}] (mode {}) the scancode of {:?}{} must type {} but gives {}", set_name, LAYOUT_NAMES[l], mods_text(m), mode_name(mode), k, how, want, got),
                Replay::one(&comp, ops, &want, obs),
            );
        }
    }
    ctx.evaluations += n;
    ctx.traces_validated += n;
    let vname = ["add_byte", "add_byte, status bytes 00 AA before the key", "add_bit, glitch + clear() before every frame of the key"][via as usize];
    ctx.part(&format!("e2e:{} scancodes -> Keyboard<real layout> -> character ({})", set_name, vname), json!({"layouts": 10, "modes": 2, "modifier_states": 512, "key_presses_checked": n, "judged": nt, "keys_with_scancode": seq_of.len()}));
}

pub fn c03(ctx: &mut Ctx) -> (u64, String) {
    ctx.trust("R-LAYOUT: per layout the base / Shift / AltGr characters of the 47-50 main-block character keys (harness/src/refs/layouts.rs), hand-written from KBDUS/KBDUK/KBDGR/KBDFR/KBDNO/KBDFI/KBD106/KBDDV, colemak.com, Programmer Dvorak, X11 and AFNOR as second sources; variant cells hold sets");
    ctx.assume("Colemak / Programmer Dvorak AltGr layers are not embedded: a distinct AltGr character there is reported as unjudged, not as a violation");
    ctx.expect(tables_well_formed(), "reference tables have 48 columns");
    let (_, nt) = for_all_objects(ctx, "sweep:level-selecting modifier states", 3, c03_chunk);
    c03_e2e::<ScancodeSet2>(ctx, "set2", ScancodeSet2::new, 2, 0);
    c03_e2e::<ScancodeSet2>(ctx, "set2", ScancodeSet2::new, 2, 1);
    c03_e2e::<ScancodeSet2>(ctx, "set2", ScancodeSet2::new, 2, 2);
    c03_e2e::<ScancodeSet1>(ctx, "set1", ScancodeSet1::new, 1, 0);
    {
        let all: Vec<usize> = (0..N_LAYOUTS).collect();
        let deep = if ctx.thorough() { 2 } else { 1 };
        let opts = FamOpts { max_inter: deep, mod_pairs: true, key_then_mod_pairs: true, modifier_keys: false };
        decoder_family_opts(ctx, "family:characters through EventDecoder after short histories", &all, &|l| main_keys(l), opts, family_intermediates(), |l, k, m, mode, out| {
            if c03_caps_altgr_point(m, mode) {
                let nc = m & !M_CAPS;
                let out_nc = guarded(|| map_direct(l, k, &mods_from_bits(nc), mode));
                let base_nc = guarded(|| map_direct(l, k, &mods_from_bits(base_of(nc)), mode));
                return match c03_caps_altgr_judge(out, &out_nc, &base_nc) {
                    Err(want) => Some(("altgr-capslock".to_string(), want)),
                    _ => None,
                };
            }
            let base_out = guarded(|| map_direct(l, k, &mods_from_bits(base_of(m)), mode));
            match c03_judge(l, k, m, mode, out, &base_out) {
                Err((want, lev)) => Some((lev.to_string(), want)),
                _ => None,
            }
        });
    }
    if ctx.thorough() {
        c03_e2e::<ScancodeSet1>(ctx, "set1", ScancodeSet1::new, 1, 2);
    }
    ctx.sample_run("layout:direct:azerty", &["map:Q:16:Map", "map:Key2:144:Ignore"]);
    ctx.sample_run("layout:any:uk105", &["map:Key3:17:Map", "map:Oem8:144:Map"]);
    ctx.sample_run("layout:anyref:de105", &["map:Q:144:Map", "map:Key7:84:Ignore", "map:OemMinus:144:Map"]);
    ctx.sample_run("kb:wrap-dvp104:set2:Map", &["type:0E", "type:16", "type:55", "type:12", "type:55"]);
    ctx.sample(json!({"layout": "azerty", "key": "Q", "level": "base", "reference": "a"}));
    ctx.sample(json!({"layout": "uk105", "key": "Key3", "level": "shift", "reference": "£"}));
    ctx.sample(json!({"layout": "de105", "key": "Q", "level": "altgr (ralt, or lalt+ctrl in Ignore mode)", "reference": "@ (or no distinct character)"}));
    ctx.sample(json!({"layout": "dvp104", "row": "Oem8 Key1..Key0 OemMinus OemPlus", "level": "base", "reference": "$&[{}(=*)+]!#"}));
    (
        nt,
        "30 layout objects x the main-block character keys x every modifier value (of 512) x both modes that selects the base, Shift or AltGr level (CapsLock off, Ctrl not being mapped, Shift+AltGr unconstrained), compared with R-LAYOUT; plus the same through real scancodes -> Keyboard<real layout> in every reachable modifier state; non-trivial = points actually judged against a reference cell".into(),
    )
}

// ---- C09 ---------------------------------------------------------------------------------------

fn c09_chunk(form: usize, l: usize) -> ChunkOut {
    let mut o = ChunkOut::new();
    for k in ALL_KEYS {
        let b = call(form, l, k, &mods_from_bits(M_NUM), HandleControl::Ignore);
        let letter = match &b {
            Ok(DecodedKey::Unicode(c)) if c.is_ascii_lowercase() => Some(*c),
            _ => None,
        };
        for m in 0..512u16 {
            let mods = mods_from_bits(m);
            let map = call(form, l, k, &mods, HandleControl::MapLettersToUnicode);
            let ign = call(form, l, k, &mods, HandleControl::Ignore);
            o.evals += 2;
            let ctrl = r_ctrl(m);
            let alt = r_alt(m);
            let mut fail = |o: &mut ChunkOut, class: &str, text: String, mode: HandleControl, expected: String, observed: String| {
                o.bad(LBad { key: format!("{}/{}/{}", LAYOUT_NAMES[l], key_name(k), class), text, form, l, k, m, mode, expected, observed });
            };
            if let (Some(c), true, false) = (letter, ctrl, alt) {
                // mapped: control character of the layout's letter whatever Shift/Caps/NumLock/hidden are
                o.nontrivial += 1;
                let want = DecodedKey::Unicode(char::from_u32(c as u32 - 0x60).unwrap());
                if map != Ok(want) {
                    fail(
                        &mut o,
                        "ctrl-letter",
                        format!("layout {}: key {:?} types {:?}, so with Ctrl held (modifiers [{}]) and mapping enabled it must give {} but gives {}", LAYOUT_NAMES[l], k, c, mods_text(m), dk_text(&want), otext(&map)),
                        HandleControl::MapLettersToUnicode,
                        dk_text(&want),
                        otext(&map),
                    );
                }
            } else if !(letter.is_some() && ctrl && alt) {
                // Ctrl not held, or non-letter key: mapping mode changes nothing
                if !ctrl || letter.is_none() {
                    if map != ign {
                        fail(
                            &mut o,
                            "mode-changes-output",
                            format!("layout {}: key {:?} with modifiers [{}]: Ctrl mapping must change nothing here, yet mode Map gives {} and mode Ignore gives {}", LAYOUT_NAMES[l], k, mods_text(m), otext(&map), otext(&ign)),
                            HandleControl::MapLettersToUnicode,
                            otext(&ign),
                            otext(&map),
                        );
                    }
                }
            }
            // with mapping disabled Ctrl changes nothing (left Alt excluded: Ctrl+left Alt forms AltGr)
            if ctrl && m & M_LALT == 0 {
                let noctrl = call(form, l, k, &mods_from_bits(m & !(M_LCTRL | M_RCTRL)), HandleControl::Ignore);
                o.evals += 1;
                if ign != noctrl {
                    fail(
                        &mut o,
                        "ctrl-in-ignore-mode",
                        format!("layout {}: key {:?} in mode Ignore with modifiers [{}] gives {} but without the Ctrl keys gives {}", LAYOUT_NAMES[l], k, mods_text(m), otext(&ign), otext(&noctrl)),
                        HandleControl::Ignore,
                        otext(&noctrl),
                        otext(&ign),
                    );
                }
            }
        }
        if letter.is_some() {
            o.count("letter_keys", 1);
        }
    }
    o
}

/// thorough: the same through EventDecoder with set_ctrl_handling flipped in every state
fn c09_via_decoder(ctx: &mut Ctx) {
    let paths = mods_paths();
    let res = par_chunks(N_LAYOUTS, |l| {
        let mut n = 0u64;
        let mut bads = vec![];
        for m in 0..512u16 {
            if !r_ctrl(m) || r_alt(m) {
                continue;
            }
            for start_mode in MODES {
                let mut d = EventDecoder::new(Wrap(l as u8), start_mode);
                if guarded(|| {
                    for (k, s) in &paths[m as usize] {
                        let _ = d.process_keyevent(KeyEvent::new(*k, *s));
                    }
                })
                .is_err()
                {
                    continue;
                }
                for k in ALL_KEYS {
                    if is_modifier_key(k) {
                        continue;
                    }
                    let Ok(base) = guarded(|| map_direct(l, k, &mods_from_bits(M_NUM), HandleControl::Ignore)) else { continue };
                    let DecodedKey::Unicode(c) = base else { continue };
                    if !c.is_ascii_lowercase() {
                        continue;
                    }
                    // flip to Map right before the press
                    let mut d2 = d.clone();
                    d2.set_ctrl_handling(HandleControl::MapLettersToUnicode);
                    let got = guarded(|| d2.process_keyevent(KeyEvent::new(k, KeyState::Down)));
                    n += 1;
                    let want = Some(DecodedKey::Unicode(char::from_u32(c as u32 - 0x60).unwrap()));
                    if got != Ok(want) && bads.len() < 30 {
                        let gt = match &got {
                            Ok(g) => crate::replay::fmt_dk(g),
                            Err(p) => p.clone(),
                        };
                        bads.push((l, m, start_mode, k, c, crate::replay::fmt_dk(&want), gt));
                    }
                }
            }
        }
        (n, bads)
    });
    let mut n = 0;
    for (c, bads) in res {
        n += c;
        for (l, m, sm, k, ch, want, got) in bads {
            let comp = format!("ed:wrap-{}:{}", LAYOUT_NAMES[l], mode_name(sm));
            let mut ops: Vec<Op> = paths[m as usize].iter().map(|(k, s)| Op::Key(*k, *s)).collect();
            ops.push(Op::Ctrl(HandleControl::MapLettersToUnicode));
            ops.push(Op::Key(k, KeyState::Down));
            ctx.violation(
                &format!("{}/{}/ctrl-letter", LAYOUT_NAMES[l], key_name(k)),
                &format!("[via EventDecoder] layout {}: key {:?} types {:?}; with modifiers [{}] and mapping switched on it must give {} but gives {}", LAYOUT_NAMES[l], k, ch, mods_text(m), want, got),
                Replay::one(&comp, ops, &want, Some(got)),
            );
        }
    }
    ctx.evaluations += n;
    ctx.part("sweep:via EventDecoder with set_ctrl_handling", json!({"presses_checked": n}));
}

pub fn c09(ctx: &mut Ctx) -> (u64, String) {
    ctx.assume("self-referential oracle: 'the letter the layout types' = the layout's own unmodified output for that key; no reference table");
    ctx.assume("Ctrl together with an Alt key in mapping mode is unconstrained (the statement says 'no Alt or AltGr')");
    let (_, nt) = for_all_objects(ctx, "sweep:30 objects x 124 keys x 512 modifier values x 2 modes", 3, c09_chunk);
    {
        let all: Vec<usize> = (0..N_LAYOUTS).collect();
        let deep = if ctx.thorough() { 2 } else { 1 };
        decoder_family(ctx, "family:Ctrl handling through EventDecoder after short histories", &all, &|_l| ALL_KEYS.to_vec(), deep, |l, k, m, mode, out| {
            let base = guarded(|| map_direct(l, k, &mods_from_bits(M_NUM), HandleControl::Ignore));
            let letter = match &base {
                Ok(DecodedKey::Unicode(c)) if c.is_ascii_lowercase() => Some(*c),
                _ => None,
            };
            let f = |r: &Result<DecodedKey, String>| match r {
                Ok(d) => dk_text(d),
                Err(p) => p.clone(),
            };
            if let (Some(c), true, false, HandleControl::MapLettersToUnicode) = (letter, r_ctrl(m), r_alt(m), mode) {
                let want = DecodedKey::Unicode(char::from_u32(c as u32 - 0x60).unwrap());
                return if *out != Ok(want) { Some(("ctrl-letter".into(), dk_text(&want))) } else { None };
            }
            if mode == HandleControl::Ignore && r_ctrl(m) && m & M_LALT == 0 {
                let want = guarded(|| map_direct(l, k, &mods_from_bits(m & !(M_LCTRL | M_RCTRL)), HandleControl::Ignore));
                return if *out != want { Some(("ctrl-in-ignore-mode".into(), f(&want))) } else { None };
            }
            if mode == HandleControl::MapLettersToUnicode && (!r_ctrl(m) || letter.is_none()) {
                let want = guarded(|| map_direct(l, k, &mods_from_bits(m), HandleControl::Ignore));
                return if *out != want { Some(("mode-changes-output".into(), f(&want))) } else { None };
            }
            None
        });
    }
    if ctx.thorough() {
        c09_via_decoder(ctx);
    }
    ctx.sample_run("layout:direct:azerty", &["map:Q:57:Map", "map:Q:57:Ignore", "map:M:20:Map"]);
    ctx.sample_run("layout:direct:de105", &["map:Y:20:Map", "map:Z:24:Map", "map:Oem1:20:Map"]);
    ctx.sample(json!({"layout": "azerty", "key": "Q (types 'a')", "modifiers": "rctrl+lshift+capslock", "mode": "Map", "reference": "U+0001"}));
    ctx.sample(json!({"layout": "de105", "key": "Oem1 (types 'ö')", "modifiers": "lctrl", "reference": "same as mode Ignore: 'ö'"}));
    (nt, "30 layout objects x 124 keys x all 512 modifier values x both modes; non-trivial = (letter key, Ctrl held, no Alt) points where the control character is demanded".into())
}

// ---- C10 ---------------------------------------------------------------------------------------

fn upper_single(c: char) -> Option<char> {
    let mut it = c.to_uppercase();
    let u = it.next()?;
    if it.next().is_some() || u == c {
        None
    } else {
        Some(u)
    }
}

fn c10_chunk(form: usize, l: usize) -> ChunkOut {
    let mut o = ChunkOut::new();
    for k in ALL_KEYS {
        let b = call(form, l, k, &mods_from_bits(M_NUM), HandleControl::Ignore);
        let s = call(form, l, k, &mods_from_bits(M_NUM | M_LSHIFT), HandleControl::Ignore);
        let letter = match (&b, &s) {
            (Ok(DecodedKey::Unicode(c)), Ok(DecodedKey::Unicode(u))) if c.is_lowercase() && upper_single(*c) == Some(*u) => Some(*c),
            _ => None,
        };
        if letter.is_some() {
            o.count("letter_keys", 1);
        }
        for mode in MODES {
            for m in 0..512u16 {
                if m & M_CAPS != 0 {
                    continue;
                }
                let with_caps = call(form, l, k, &mods_from_bits(m | M_CAPS), mode);
                o.evals += 2;
                if let Some(c) = letter {
                    // CapsLock == inversion of Shift
                    let twin_m = if r_shift(m) { m & !(M_LSHIFT | M_RSHIFT) } else { m | M_LSHIFT };
                    let twin = call(form, l, k, &mods_from_bits(twin_m), mode);
                    o.nontrivial += 1;
                    if with_caps != twin {
                        o.bad(LBad {
                            key: format!("{}/{}/caps-inverts-shift", LAYOUT_NAMES[l], key_name(k)),
                            text: format!(
                                "layout {}: key {:?} is the letter key {:?}/{:?}; with modifiers [{}] + CapsLock it must give what [{}] gives ({}) but gives {}",
                                LAYOUT_NAMES[l], k, c, upper_single(c).unwrap(), mods_text(m), mods_text(twin_m), otext(&twin), otext(&with_caps)
                            ),
                            form, l, k, m: m | M_CAPS, mode, expected: otext(&twin), observed: otext(&with_caps),
                        });
                    }
                } else {
                    let without = call(form, l, k, &mods_from_bits(m), mode);
                    if with_caps != without {
                        o.bad(LBad {
                            key: format!("{}/{}/caps-affects-nonletter", LAYOUT_NAMES[l], key_name(k)),
                            text: format!(
                                "layout {}: key {:?} is not a letter key (types {} / shifted {}), yet CapsLock changes its output with modifiers [{}]: {} without, {} with CapsLock",
                                LAYOUT_NAMES[l], k, otext(&b), otext(&s), mods_text(m), otext(&without), otext(&with_caps)
                            ),
                            form, l, k, m: m | M_CAPS, mode, expected: otext(&without), observed: otext(&with_caps),
                        });
                    }
                }
            }
        }
    }
    o
}

fn c10_via_decoder(ctx: &mut Ctx) {
    // real CapsLock key events: press CapsLock (toggle on), then type; must equal the shift-inverted twin typed without CapsLock
    let res = par_chunks(N_LAYOUTS, |l| {
        let mut n = 0u64;
        let mut bads = vec![];
        for k in ALL_KEYS {
            if is_modifier_key(k) {
                continue;
            }
            let (Ok(b), Ok(s)) = (
                guarded(|| map_direct(l, k, &mods_from_bits(M_NUM), HandleControl::Ignore)),
                guarded(|| map_direct(l, k, &mods_from_bits(M_NUM | M_LSHIFT), HandleControl::Ignore)),
            ) else {
                continue;
            };
            let letter = matches!((&b, &s), (DecodedKey::Unicode(c), DecodedKey::Unicode(u)) if c.is_lowercase() && upper_single(*c) == Some(*u));
            for shift in [false, true] {
                let mut d = EventDecoder::new(Wrap(l as u8), HandleControl::Ignore);
                let got = guarded(|| {
                    let _ = d.process_keyevent(KeyEvent::new(KeyCode::CapsLock, KeyState::Down));
                    let _ = d.process_keyevent(KeyEvent::new(KeyCode::CapsLock, KeyState::Up));
                    if shift {
                        let _ = d.process_keyevent(KeyEvent::new(KeyCode::RShift, KeyState::Down));
                    }
                    d.process_keyevent(KeyEvent::new(k, KeyState::Down))
                });
                n += 1;
                let want = Some(if letter == shift { b } else { s });
                if got != Ok(want) && bads.len() < 30 {
                    let gt = match &got {
                        Ok(g) => crate::replay::fmt_dk(g),
                        Err(p) => p.clone(),
                    };
                    bads.push((l, k, shift, crate::replay::fmt_dk(&want), gt));
                }
            }
        }
        (n, bads)
    });
    let mut n = 0;
    for (c, bads) in res {
        n += c;
        for (l, k, shift, want, got) in bads {
            let comp = format!("ed:wrap-{}:Ignore", LAYOUT_NAMES[l]);
            let mut ops = vec![Op::Key(KeyCode::CapsLock, KeyState::Down), Op::Key(KeyCode::CapsLock, KeyState::Up)];
            if shift {
                ops.push(Op::Key(KeyCode::RShift, KeyState::Down));
            }
            ops.push(Op::Key(k, KeyState::Down));
            ctx.violation(
                &format!("{}/{}/caps-via-events", LAYOUT_NAMES[l], key_name(k)),
                &format!("[via real CapsLock key events] layout {}: CapsLock on{}, key {:?} must give {} but gives {}", LAYOUT_NAMES[l], if shift { " + right Shift" } else { "" }, k, want, got),
                Replay::one(&comp, ops, &want, Some(got)),
            );
        }
    }
    ctx.evaluations += n;
    ctx.part("sweep:via real CapsLock key events", json!({"presses_checked": n}));
}

pub fn c10(ctx: &mut Ctx) -> (u64, String) {
    ctx.assume("self-referential oracle: a letter key is one whose unmodified output is a lowercase letter and whose Shift output is its single-character uppercase form (admits national letters, excludes ß/?, ù/%, é/2)");
    let (_, nt) = for_all_objects(ctx, "sweep:30 objects x 124 keys x 256 CapsLock twins x 2 modes", 3, c10_chunk);
    c10_via_decoder(ctx);
    {
        let all: Vec<usize> = (0..N_LAYOUTS).collect();
        let deep = if ctx.thorough() { 2 } else { 1 };
        // quick: every sequence of <= 2 Shift / CapsLock / NumLock / Pause-prefix events between the two presses;
        // thorough: every sequence of <= 2 of all 29 intermediate actions
        let inter: Vec<EvAct> = if ctx.thorough() {
            crate::props::events::family_intermediates()
        } else {
            // (the two Shift keys and CapsLock are what C10 is about; NumLock and the Pause prefix are there because the lock
            // keys share code paths - a CapsLock press that disturbs NumLock changes what the numpad types)
            [KeyCode::LShift, KeyCode::RShift, KeyCode::CapsLock, KeyCode::NumpadLock, KeyCode::RControl2].iter().flat_map(|k| [EvAct::Key(*k, KeyState::Down), EvAct::Key(*k, KeyState::Up)]).collect()
        };
        let _ = deep;
        decoder_family_with(ctx, "family:CapsLock through EventDecoder after short histories", &all, &|_l| ALL_KEYS.to_vec(), 2, inter, |l, k, m, mode, out| {
            if m & M_CAPS == 0 {
                return None;
            }
            let b = guarded(|| map_direct(l, k, &mods_from_bits(M_NUM), HandleControl::Ignore));
            let s = guarded(|| map_direct(l, k, &mods_from_bits(M_NUM | M_LSHIFT), HandleControl::Ignore));
            let letter = matches!((&b, &s), (Ok(DecodedKey::Unicode(c)), Ok(DecodedKey::Unicode(u))) if c.is_lowercase() && upper_single(*c) == Some(*u));
            let m0 = m & !M_CAPS;
            let twin = if !letter { m0 } else if r_shift(m0) { m0 & !(M_LSHIFT | M_RSHIFT) } else { m0 | M_LSHIFT };
            let want = guarded(|| map_direct(l, k, &mods_from_bits(twin), mode));
            if *out != want {
                Some((if letter { "caps-inverts-shift".into() } else { "caps-affects-nonletter".into() }, match &want { Ok(d) => dk_text(d), Err(p) => p.clone() }))
            } else {
                None
            }
        });
    }
    ctx.sample_run("layout:direct:de105", &["map:Oem1:48:Map", "map:Oem1:50:Map", "map:Oem6:48:Map"]);
    ctx.sample_run("ed:wrap-azerty:Ignore", &["key:CapsLock:Down", "key:M:Down", "key:Oem1:Down"]);
    ctx.sample(json!({"layout": "de105", "key": "Oem1 (ö/Ö)", "modifiers": "capslock", "reference": "Ö; with capslock+rshift: ö"}));
    ctx.sample(json!({"layout": "azerty", "key": "M (',' / '?')", "modifiers": "capslock", "reference": "',' (unchanged)"}));
    (nt, "30 layout objects x 124 keys x all 256 CapsLock-off modifier values paired with their CapsLock-on twin x both modes; non-trivial = twin pairs on letter keys".into())
}

// ---- C11 ---------------------------------------------------------------------------------------

fn is_numpad_numlock_key(k: KeyCode) -> bool {
    NUMPAD_DIGITS.iter().any(|(d, _, _)| *d == k) || k == KeyCode::NumpadPeriod
}

fn c11_chunk(form: usize, l: usize) -> ChunkOut {
    let mut o = ChunkOut::new();
    for k in ALL_KEYS {
        let numpad = is_numpad_numlock_key(k);
        for mode in MODES {
            // class id -> (representative modifier value, its output)
            let mut rep: BTreeMap<u8, (u16, Result<DecodedKey, String>)> = BTreeMap::new();
            for m in 0..512u16 {
                let out = call(form, l, k, &mods_from_bits(m), mode);
                o.evals += 1;
                let class = (r_shift(m) as u8) | (r_ctrl(m) as u8) << 1 | (r_altgr(m) as u8) << 2 | (r_capslock(m) as u8) << 3 | ((numpad && r_numlock(m)) as u8) << 4;
                match rep.get(&class) {
                    None => {
                        rep.insert(class, (m, out));
                    }
                    Some((m0, out0)) => {
                        o.nontrivial += 1;
                        if *out0 != out {
                            // name the flag(s) that differ
                            let diff = m ^ m0;
                            o.bad(LBad {
                                key: format!("{}/{}/depends-on:{}", LAYOUT_NAMES[l], key_name(k), mods_text(diff).replace('+', ",")),
                                text: format!(
                                    "layout {}: key {:?} (mode {}) gives {} with modifiers [{}] but {} with [{}], although both mean the same Shift/Ctrl/AltGr/CapsLock{} facts",
                                    LAYOUT_NAMES[l], k, mode_name(mode), otext(out0), mods_text(*m0), otext(&out), mods_text(m), if numpad { "/NumLock" } else { "" }
                                ),
                                form, l, k, m, mode, expected: otext(out0), observed: otext(&out),
                            });
                        }
                    }
                }
            }
            o.count("classes_seen", rep.len() as u64);
        }
    }
    o
}

pub fn c11(ctx: &mut Ctx) -> (u64, String) {
    ctx.trust("R-PRED: the five groupings as boolean formulas (harness/src/common.rs r_shift/r_ctrl/r_alt/r_altgr/r_caps), written from the property text");
    let (_, nt) = for_all_objects(ctx, "sweep:class-mates agree", 3, c11_chunk);
    {
        let all: Vec<usize> = (0..N_LAYOUTS).collect();
        let deep = if ctx.thorough() { 2 } else { 1 };
        decoder_family(ctx, "family:modifier classes through EventDecoder after short histories", &all, &|_l| ALL_KEYS.to_vec(), deep, |l, k, m, mode, out| {
            // the class representative: one key per fact
            let numpad = is_numpad_numlock_key(k);
            let rep = (if r_shift(m) { M_LSHIFT } else { 0 })
                | (if r_ctrl(m) { M_LCTRL } else { 0 })
                | (if r_altgr(m) { M_RALT } else { 0 })
                | (m & M_CAPS)
                | (if numpad { m & M_NUM } else { M_NUM });
            let want = guarded(|| map_direct(l, k, &mods_from_bits(rep), mode));
            if *out != want {
                Some(("depends-on-more-than-the-five-facts".into(), format!("{} (what [{}] gives)", match &want { Ok(d) => dk_text(d), Err(p) => p.clone() }, mods_text(rep))))
            } else {
                None
            }
        });
    }
    // the five public predicates on all 512 values
    let mut bad = 0;
    for m in 0..512u16 {
        let mods = mods_from_bits(m);
        let got = [
            guarded(|| mods.is_shifted()),
            guarded(|| mods.is_ctrl()),
            guarded(|| mods.is_alt()),
            guarded(|| mods.is_altgr()),
            guarded(|| mods.is_caps()),
        ];
        let want = [r_shift(m), r_ctrl(m), r_alt(m), r_altgr(m), r_caps(m)];
        ctx.evaluations += 5;
        for (i, name) in ["is_shifted", "is_ctrl", "is_alt", "is_altgr", "is_caps"].iter().enumerate() {
            if got[i] != Ok(want[i]) {
                bad += 1;
                let gt = match &got[i] {
                    Ok(b) => b.to_string(),
                    Err(p) => p.clone(),
                };
                ctx.violation(
                    &format!("predicate/{}/mods:{}", name, m),
                    &format!("Modifiers::{}() on [{}] must be {} but is {}", name, mods_text(m), want[i], gt),
                    Replay { parts: vec![], expected: format!("{}", want[i]), observed_last: None },
                );
            }
        }
    }
    ctx.part("table:five predicates x 512 modifier values", json!({"evaluations": 2560, "mismatches": bad}));
    ctx.sample_run("layout:direct:uk105", &["map:Key4:144:Map", "map:Key4:84:Ignore", "map:Key4:80:Map", "map:Key4:272:Map"]);
    ctx.sample(json!({"key": "A", "class": "shift=1 ctrl=0 altgr=0 caps=0", "members": ["lshift", "rshift", "lshift+rshift", "lshift+lalt", "rshift+rctrl2", "..."], "oracle": "all members type the same"}));
    (nt, "30 layout objects x 124 keys x 2 modes x all 512 modifier values, partitioned into the 16 (32 for the 11 NumLock-sensitive numpad keys) abstract classes: every member is compared with the class representative; plus the five public predicates on all 512 values; non-trivial = comparisons between two distinct members of one class".into())
}

// ---- C12 ---------------------------------------------------------------------------------------

fn c12_histories<D: KeyProc + Send>(ctx: &mut Ctx, levels: &[(&str, u16); 3], level_keys: &[Option<KeyCode>; 3], plain: &[KeyCode], hists: &[Vec<(KeyCode, KeyState)>], what: &str) {
    let n_hists = hists.len();
    {
        let results = par_chunks(N_LAYOUTS * 2, |i| {

            let l = i / 2;
            let mode = MODES[i % 2];
            let mut n = 0u64;
            let mut bads: Vec<(usize, HandleControl, usize, char)> = vec![];
            // witnesses from the table: char -> list of (key, level)
            let mut wit: BTreeMap<char, Vec<(KeyCode, usize)>> = BTreeMap::new();
            for k in plain {
                for (li, (_, m)) in levels.iter().enumerate() {
                    if let Ok(DecodedKey::Unicode(c)) = call(0, l, *k, &mods_from_bits(*m), mode) {
                        if (' '..='~').contains(&c) {
                            wit.entry(c).or_default().push((*k, li));
                        }
                    }
                }
            }
            let tap = |d: &mut D, k: KeyCode, lev: usize| -> Result<Option<DecodedKey>, String> {
                guarded(|| {
                    if let Some(mk) = level_keys[lev] {
                        let _ = d.pk(mk, KeyState::Down);
                    }
                    let r = d.pk(k, KeyState::Down);
                    let _ = d.pk(k, KeyState::Up);
                    if let Some(mk) = level_keys[lev] {
                        let _ = d.pk(mk, KeyState::Up);
                    }
                    r
                })
            };
            for (hi, h) in hists.iter().enumerate() {
                let mut d0 = D::build(l, mode);
                if guarded(|| {
                    for (k, st) in h {
                        let _ = d0.pk(*k, *st);
                    }
                })
                .is_err()
                {
                    continue;
                }
                for (c, ws) in &wit {
                    let mut found = false;
                    for (wk, wl) in ws {
                        let mut d = d0.clone();
                        n += 1;
                        if tap(&mut d, *wk, *wl) == Ok(Some(DecodedKey::Unicode(*c))) {
                            found = true;
                            break;
                        }
                    }
                    if !found && bads.len() < 6 {
                        bads.push((l, mode, hi, *c));
                    }
                }
            }
            (n, bads)
        });
        let mut n = 0;
        for (c, bads) in results {
            n += c;
            for (l, mode, hi, ch) in bads {
                let comp = D::comp(l, mode);
                let mut ops: Vec<Op> = hists[hi].iter().map(|(k, st)| Op::Key(*k, *st)).collect();
                let htext: Vec<String> = ops.iter().map(|o| o.text()).collect();
                // then the table's first witness, to show what comes out instead
                let w = ALL_KEYS.iter().flat_map(|k| (0..3).map(move |li| (*k, li))).find(|(k, li)| call(0, l, *k, &mods_from_bits(levels[*li].1), mode) == Ok(DecodedKey::Unicode(ch)));
                if let Some((wk, wl)) = w {
                    if let Some(mk) = level_keys[wl] {
                        ops.push(Op::Key(mk, KeyState::Down));
                    }
                    ops.push(Op::Key(wk, KeyState::Down));
                }
                let obs = crate::replay::run_part(&comp, &ops).pop();
                ctx.violation(
                    &format!("{}/untypeable-after-history/{}/U+{:04X}", LAYOUT_NAMES[l], if what.starts_with("Key") { "kb" } else { "ed" }, ch as u32),
                    &format!(
                        "[via {}, mode {}] layout {}: after the history [{}] (every key released again) no key types {:?} at its unmodified, Shift or AltGr level any more, although the layout table has it",
                        what, mode_name(mode), LAYOUT_NAMES[l], htext.join(", "), ch
                    ),
                    Replay::one(&comp, ops, &format!("Some(Unicode({:?}))", ch), obs),
                );
            }
        }
        ctx.evaluations += n;
        ctx.part(&format!("search:every character right after every short chord history with all keys released ({}, both modes)", what), json!({"layouts": 10, "modes": 2, "histories_per_layout_and_mode": n_hists, "presses_tried": n}));
    }
}

/// the two objects that turn key events into decoded keys: the bare event decoder and the whole Keyboard
trait KeyProc: Clone {
    fn build(l: usize, mode: HandleControl) -> Self;
    fn pk(&mut self, k: KeyCode, s: KeyState) -> Option<DecodedKey>;
    fn comp(l: usize, mode: HandleControl) -> String;
}
impl KeyProc for EventDecoder<Wrap> {
    fn build(l: usize, mode: HandleControl) -> Self {
        EventDecoder::new(Wrap(l as u8), mode)
    }
    fn pk(&mut self, k: KeyCode, s: KeyState) -> Option<DecodedKey> {
        self.process_keyevent(KeyEvent::new(k, s))
    }
    fn comp(l: usize, mode: HandleControl) -> String {
        format!("ed:wrap-{}:{}", LAYOUT_NAMES[l], mode_name(mode))
    }
}
impl KeyProc for Keyboard<Wrap, ScancodeSet2> {
    fn build(l: usize, mode: HandleControl) -> Self {
        Keyboard::new(ScancodeSet2::new(), Wrap(l as u8), mode)
    }
    fn pk(&mut self, k: KeyCode, s: KeyState) -> Option<DecodedKey> {
        self.process_keyevent(KeyEvent::new(k, s))
    }
    fn comp(l: usize, mode: HandleControl) -> String {
        format!("kb:wrap-{}:set2:{}", LAYOUT_NAMES[l], mode_name(mode))
    }
}

pub fn c12(ctx: &mut Ctx) -> (u64, String) {
    let levels: [(&str, u16); 3] = [("unmodified", M_NUM), ("left Shift", M_NUM | M_LSHIFT), ("AltGr", M_NUM | M_RALT)];
    let mut witnesses = 0u64;
    let mut sample_done = false;
    for l in 0..N_LAYOUTS {
        for form in 0..3 {
          // both Ctrl modes: no Ctrl key is held at the three plain levels, so the mode must not take a character away
          for mode in MODES {
            let mut have: BTreeMap<char, (KeyCode, usize)> = BTreeMap::new();
            for k in ALL_KEYS {
                for (li, (_, m)) in levels.iter().enumerate() {
                    let out = call(form, l, k, &mods_from_bits(*m), mode);
                    ctx.evaluations += 1;
                    if let Ok(DecodedKey::Unicode(c)) = out {
                        have.entry(c).or_insert((k, li));
                    }
                }
            }
            let mut missing = vec![];
            for c in 0x20u8..=0x7E {
                match have.get(&(c as char)) {
                    Some(_) => witnesses += 1,
                    None => missing.push(c as char),
                }
            }
            if form == 0 && !sample_done && l == L_FI && mode == HandleControl::Ignore {
                sample_done = true;
                let w: Vec<String> = ['\\', '|', '@', '{', '~'].iter().filter_map(|c| have.get(c).map(|(k, li)| format!("{:?} <- {:?} at level {}", c, k, levels[*li].0))).collect();
                ctx.sample(json!({"layout": "fi_se105", "witnesses": w}));
            }
            for c in missing {
                // replay: show the three levels of a few likely keys is not meaningful; list every key once at AltGr level
                let ops: Vec<Op> = ALL_KEYS.iter().flat_map(|k| levels.iter().map(move |(_, m)| Op::Map(*k, *m, mode))).collect();
                ctx.violation(
                    &format!("{}/untypeable/U+{:04X}{}", LAYOUT_NAMES[l], c as u32, if mode == HandleControl::Ignore { "" } else { "/map-letters" }),
                    &format!("[{}, mode {}] layout {}: no key types {:?} at its unmodified, Shift or AltGr level", FORM_NAMES[form], mode_name(mode), LAYOUT_NAMES[l], c),
                    Replay::one(&format!("layout:{}:{}", FORM_NAMES[form], LAYOUT_NAMES[l]), ops, &format!("some key yields Unicode({:?})", c), None),
                );
            }
          }
        }
    }
    ctx.part("search:95 printable ASCII characters x 30 layout objects x 2 Ctrl modes", json!({"witnesses_found": witnesses, "required": 95 * 30 * 2}));

    // Informational only (C12's quantifier names the three plain levels with no lock engaged): the same search with
    // CapsLock on. Reported in the evidence; never a violation, because Shift/Caps + AltGr on a letter key is
    // unconstrained by the properties (C03, C10) and a layout may legitimately give that cell no character.
    {
        let mut caps_missing: Vec<String> = vec![];
        for l in 0..N_LAYOUTS {
            let mut have: BTreeSet<char> = BTreeSet::new();
            for k in ALL_KEYS {
                for (_, m) in levels.iter() {
                    if let Ok(DecodedKey::Unicode(c)) = call(0, l, k, &mods_from_bits(*m | M_CAPS), HandleControl::Ignore) {
                        have.insert(c);
                    }
                }
            }
            let missing: String = (0x20u8..=0x7E).map(|c| c as char).filter(|c| !have.contains(c)).collect();
            if !missing.is_empty() {
                caps_missing.push(format!("{}: {:?}", LAYOUT_NAMES[l], missing));
            }
        }
        if !caps_missing.is_empty() {
            ctx.note(&format!("informational (not part of C12 as quantified): with CapsLock ON these characters have no key at the three levels: {}", caps_missing.join("; ")));
        }
        ctx.set("informational_untypeable_with_capslock_on", json!(caps_missing));
    }

    // through a real EventDecoder: every character must still be typeable right after any short "chord" history that ends
    // with every key released: hold 0-2 of the seven momentary modifier keys (in any order), tap one key (any key when at
    // most one modifier is held, a representative key or none when two are), release the modifiers in press order or in
    // reverse; plus a double tap of each lock key and a complete Pause sequence. After such a history no modifier is
    // held and no lock has changed, so the three plain levels must type exactly what the table promises (a decoder that
    // remembers a key, or a modifier that gets stuck, takes characters away).
    {
        let level_keys: [Option<KeyCode>; 3] = [None, Some(KeyCode::LShift), Some(KeyCode::RAltGr)];
        let plain: Vec<KeyCode> = ALL_KEYS.iter().copied().filter(|k| !is_modifier_key(*k)).collect();
        let momentary = [KeyCode::LShift, KeyCode::RShift, KeyCode::LControl, KeyCode::RControl, KeyCode::LAlt, KeyCode::RAltGr, KeyCode::RControl2];
        let reps = [KeyCode::A, KeyCode::Q, KeyCode::Key7, KeyCode::Oem7, KeyCode::Delete, KeyCode::F2, KeyCode::Numpad7, KeyCode::NumpadPeriod, KeyCode::ArrowUp, KeyCode::PrintScreen, KeyCode::ScrollLock, KeyCode::Escape];
        let mut hists: Vec<Vec<(KeyCode, KeyState)>> = vec![];
        let mut push_hist = |mods: &[KeyCode], tapped: Option<KeyCode>, reverse: bool| {
            let mut h: Vec<(KeyCode, KeyState)> = mods.iter().map(|m| (*m, KeyState::Down)).collect();
            if let Some(k) = tapped {
                h.push((k, KeyState::Down));
                h.push((k, KeyState::Up));
            }
            let mut ups: Vec<KeyCode> = mods.to_vec();
            if reverse {
                ups.reverse();
            }
            h.extend(ups.iter().map(|m| (*m, KeyState::Up)));
            hists.push(h);
        };
        for k in &plain {
            push_hist(&[], Some(*k), false);
        }
        for m in momentary {
            push_hist(&[m], None, false);
            for k in &plain {
                push_hist(&[m], Some(*k), false);
            }
        }
        for a in momentary {
            for b in momentary {
                if a == b {
                    continue;
                }
                for rev in [false, true] {
                    push_hist(&[a, b], None, rev);
                    for k in reps {
                        push_hist(&[a, b], Some(k), rev);
                    }
                }
            }
        }
        for lock in [KeyCode::CapsLock, KeyCode::NumpadLock] {
            hists.push(vec![(lock, KeyState::Down), (lock, KeyState::Up), (lock, KeyState::Down), (lock, KeyState::Up)]);
        }
        hists.push(vec![(KeyCode::RControl2, KeyState::Down), (KeyCode::NumpadLock, KeyState::Down), (KeyCode::RControl2, KeyState::Up), (KeyCode::NumpadLock, KeyState::Up)]);
        let n_hists = hists.len();
        c12_histories::<EventDecoder<Wrap>>(ctx, &levels, &level_keys, &plain, &hists, "EventDecoder");
        c12_histories::<Keyboard<Wrap, ScancodeSet2>>(ctx, &levels, &level_keys, &plain, &hists, "Keyboard::process_keyevent");
        let _ = n_hists;
    }
    if ctx.thorough() {
        // each witness re-typed through EventDecoder by real key events
        let mut n = 0u64;
        for l in 0..N_LAYOUTS {
            for c in 0x20u8..=0x7E {
                let mut found = false;
                'k: for k in ALL_KEYS {
                    if is_modifier_key(k) {
                        continue;
                    }
                    for modk in [None, Some(KeyCode::LShift), Some(KeyCode::RAltGr)] {
                        let mut d = EventDecoder::new(Wrap(l as u8), HandleControl::MapLettersToUnicode);
                        let typed = guarded(|| {
                            if let Some(mk) = modk {
                                let _ = d.process_keyevent(KeyEvent::new(mk, KeyState::Down));
                            }
                            d.process_keyevent(KeyEvent::new(k, KeyState::Down))
                        });
                        n += 1;
                        if typed == Ok(Some(DecodedKey::Unicode(c as char))) {
                            found = true;
                            break 'k;
                        }
                    }
                }
                if !found {
                    ctx.violation(
                        &format!("{}/untypeable/U+{:04X}", LAYOUT_NAMES[l], c),
                        &format!("[via EventDecoder] layout {}: no single key press (alone, with left Shift or with AltGr) types {:?}", LAYOUT_NAMES[l], c as char),
                        Replay { parts: vec![], expected: format!("some key yields {:?}", c as char), observed_last: None },
                    );
                }
            }
        }
        ctx.evaluations += n;
        ctx.part("search:via EventDecoder key events", json!({"presses_tried": n}));
    }
    (witnesses, "for each of the 30 layout objects and both Ctrl modes the set of Unicode outputs over all 124 keys x {unmodified, left Shift, AltGr} is computed and must contain U+0020..U+007E; non-trivial = (layout object, character) pairs with a witness key".into())
}

// ---- C15 ---------------------------------------------------------------------------------------

fn c15_chunk(form: usize, l: usize) -> ChunkOut {
    let mut o = ChunkOut::new();
    for mode in MODES {
        for m in 0..512u16 {
            let mods = mods_from_bits(m);
            let num = r_numlock(m);
            let mut check = |o: &mut ChunkOut, k: KeyCode, ok: &dyn Fn(&Result<DecodedKey, String>) -> bool, want: String, class: &str| {
                let out = call(form, l, k, &mods, mode);
                o.evals += 1;
                o.nontrivial += 1;
                if !ok(&out) {
                    o.bad(LBad {
                        key: format!("{}/{}/{}", LAYOUT_NAMES[l], key_name(k), class),
                        text: format!("layout {}: key {:?} with modifiers [{}] (mode {}) must give {} but gives {}", LAYOUT_NAMES[l], k, mods_text(m), mode_name(mode), want, otext(&out)),
                        form, l, k, m, mode, expected: want.clone(), observed: otext(&out),
                    });
                }
            };
            for (k, digit, alias) in NUMPAD_DIGITS {
                if num {
                    check(&mut o, k, &|r| *r == Ok(DecodedKey::Unicode(digit)), format!("Unicode({:?})", digit), "numlock-on");
                } else if let Some(a) = alias {
                    check(&mut o, k, &|r| *r == Ok(DecodedKey::RawKey(a)), format!("RawKey({:?})", a), "numlock-off");
                } else {
                    // Numpad5 without NumLock is outside the statement's list: '5' or its own raw key
                    check(&mut o, k, &|r| *r == Ok(DecodedKey::Unicode(digit)) || *r == Ok(DecodedKey::RawKey(k)), format!("Unicode({:?}) or RawKey({:?})", digit, k), "numlock-off");
                }
            }
            for (k, c) in NUMPAD_OPS {
                check(&mut o, k, &|r| *r == Ok(DecodedKey::Unicode(c)), format!("Unicode({:?})", c), "operator");
            }
            let ret = call(form, l, KeyCode::Return, &mods, mode);
            check(&mut o, KeyCode::NumpadEnter, &|r| *r == ret && *r == Ok(DecodedKey::Unicode('\n')), "what Return types = Unicode('\\n')".to_string(), "enter");
            let seps = decimal_separators(l);
            if num {
                check(&mut o, KeyCode::NumpadPeriod, &|r| matches!(r, Ok(DecodedKey::Unicode(c)) if seps.contains(*c)), format!("the decimal separator Unicode({})", chars_text(&seps.chars().collect::<Vec<_>>())), "decimal-numlock-on");
            } else {
                check(&mut o, KeyCode::NumpadPeriod, &|r| *r == Ok(DecodedKey::Unicode('\u{7F}')), "the Delete character Unicode(U+007F)".to_string(), "decimal-numlock-off");
            }
            for (k, c) in EDIT_KEYS {
                check(&mut o, k, &|r| *r == Ok(DecodedKey::Unicode(c)), format!("Unicode(U+{:04X})", c as u32), "editing");
            }
        }
    }
    o
}

/// R-NUMPAD / R-EDIT as a point judge (same rules as c15_chunk), usable on decoder outputs
pub fn judge_c15(l: usize, k: KeyCode, m: u16, _mode: HandleControl, out: &Result<DecodedKey, String>, ret: &Result<DecodedKey, String>) -> Option<(String, String)> {
    let num = r_numlock(m);
    if let Some((_, digit, alias)) = NUMPAD_DIGITS.iter().find(|(d, _, _)| *d == k) {
        return if num {
            if *out != Ok(DecodedKey::Unicode(*digit)) { Some(("numlock-on".into(), format!("Unicode({:?})", digit))) } else { None }
        } else if let Some(a) = alias {
            if *out != Ok(DecodedKey::RawKey(*a)) { Some(("numlock-off".into(), format!("RawKey({:?})", a))) } else { None }
        } else if *out != Ok(DecodedKey::Unicode(*digit)) && *out != Ok(DecodedKey::RawKey(k)) {
            Some(("numlock-off".into(), format!("Unicode({:?}) or RawKey({:?})", digit, k)))
        } else {
            None
        };
    }
    if let Some((_, c)) = NUMPAD_OPS.iter().find(|(o, _)| *o == k) {
        return if *out != Ok(DecodedKey::Unicode(*c)) { Some(("operator".into(), format!("Unicode({:?})", c))) } else { None };
    }
    if k == KeyCode::NumpadEnter {
        return if out != ret || *out != Ok(DecodedKey::Unicode('\n')) { Some(("enter".into(), "what Return types = Unicode('\\n')".into())) } else { None };
    }
    if k == KeyCode::NumpadPeriod {
        let seps = decimal_separators(l);
        return if num {
            if !matches!(out, Ok(DecodedKey::Unicode(c)) if seps.contains(*c)) { Some(("decimal-numlock-on".into(), format!("the decimal separator Unicode({})", chars_text(&seps.chars().collect::<Vec<_>>())))) } else { None }
        } else if *out != Ok(DecodedKey::Unicode('\u{7F}')) {
            Some(("decimal-numlock-off".into(), "the Delete character Unicode(U+007F)".into()))
        } else {
            None
        };
    }
    if let Some((_, c)) = EDIT_KEYS.iter().find(|(e, _)| *e == k) {
        return if *out != Ok(DecodedKey::Unicode(*c)) { Some(("editing".into(), format!("Unicode(U+{:04X})", *c as u32))) } else { None };
    }
    None
}

pub fn c15_keys() -> Vec<KeyCode> {
    let mut v: Vec<KeyCode> = NUMPAD_DIGITS.iter().map(|x| x.0).collect();
    v.extend(NUMPAD_OPS.iter().map(|x| x.0));
    v.push(KeyCode::NumpadEnter);
    v.push(KeyCode::NumpadPeriod);
    v.extend(EDIT_KEYS.iter().map(|x| x.0));
    v
}

pub fn c15(ctx: &mut Ctx) -> (u64, String) {
    ctx.trust("R-NUMPAD / R-EDIT (harness/src/refs/layouts.rs): digit <-> navigation pairs, operators, decimal separator per layout ('.'; ',' for NO and FI/SE; either for DE and FR), the six editing characters");
    ctx.assume("Numpad5 with NumLock off is outside the statement's list: '5' or its own raw key are both accepted");
    let (_, nt) = for_all_objects(ctx, "sweep:30 objects x 23 keys x 512 modifier values x 2 modes", 3, c15_chunk);
    {
        let all: Vec<usize> = (0..N_LAYOUTS).collect();
        let deep = if ctx.thorough() { 2 } else { 1 };
        let opts = FamOpts { max_inter: deep, mod_pairs: true, key_then_mod_pairs: true, modifier_keys: false };
        decoder_family_opts(ctx, "family:numpad and editing keys through EventDecoder after short histories", &all, &|_l| c15_keys(), opts, family_intermediates(), |l, k, m, mode, out| {
            let ret = guarded(|| map_direct(l, KeyCode::Return, &mods_from_bits(m), mode));
            judge_c15(l, k, m, mode, out, &ret)
        });
    }
    ctx.sample_run("layout:direct:no105", &["map:Numpad7:37:Map", "map:Numpad7:16:Map", "map:NumpadPeriod:16:Map", "map:NumpadPeriod:0:Map", "map:NumpadEnter:3:Ignore"]);
    ctx.sample(json!({"key": "Numpad7", "numlock": "off", "modifiers": "lshift+lctrl+capslock", "reference": "RawKey(Home)"}));
    ctx.sample(json!({"key": "NumpadPeriod", "layout": "no105", "numlock": "on", "reference": "','"}));
    (nt, "30 layout objects x (17 numpad + 6 editing keys) x all 512 modifier values x both modes against R-NUMPAD/R-EDIT; every point is judged".into())
}

// ---- C16 ---------------------------------------------------------------------------------------

fn c16_chunk(form: usize, l: usize) -> ChunkOut {
    let mut o = ChunkOut::new();
    for k in ALL_KEYS {
        let must_raw = RAW52.contains(&k);
        let alias = NUMPAD_DIGITS.iter().find(|(d, _, _)| *d == k).and_then(|(_, _, a)| *a);
        for mode in MODES {
            for m in 0..512u16 {
                let out = call(form, l, k, &mods_from_bits(m), mode);
                o.evals += 1;
                if must_raw {
                    o.nontrivial += 1;
                    if out != Ok(DecodedKey::RawKey(k)) {
                        o.bad(LBad {
                            key: format!("{}/{}/must-be-raw", LAYOUT_NAMES[l], key_name(k)),
                            text: format!("layout {}: the character-less key {:?} with modifiers [{}] (mode {}) must decode to RawKey({:?}) but gives {}", LAYOUT_NAMES[l], k, mods_text(m), mode_name(mode), k, otext(&out)),
                            form, l, k, m, mode, expected: format!("RawKey({:?})", k), observed: otext(&out),
                        });
                    }
                } else if let Ok(DecodedKey::RawKey(r)) = out {
                    o.nontrivial += 1;
                    let ok = r == k || (alias == Some(r) && !r_numlock(m));
                    if !ok {
                        o.bad(LBad {
                            key: format!("{}/{}/masquerades", LAYOUT_NAMES[l], key_name(k)),
                            text: format!("layout {}: key {:?} with modifiers [{}] (mode {}) decodes to the raw key {:?}, which is neither itself nor its NumLock-off navigation alias", LAYOUT_NAMES[l], k, mods_text(m), mode_name(mode), r),
                            form, l, k, m, mode, expected: format!("RawKey({:?}) or a character", k), observed: otext(&out),
                        });
                    }
                } else if out.is_err() {
                    o.bad(LBad { key: format!("{}/{}/panic", LAYOUT_NAMES[l], key_name(k)), text: "panic".into(), form, l, k, m, mode, expected: "no panic".into(), observed: otext(&out) });
                }
            }
        }
    }
    o
}

pub fn c16(ctx: &mut Ctx) -> (u64, String) {
    ctx.trust("R-RAW52 (harness/src/refs/layouts.rs): the 52 keys that carry no character on any keyboard");
    let (_, nt) = for_all_objects(ctx, "sweep:30 objects x 124 keys x 512 modifier values x 2 modes", 3, c16_chunk);
    {
        let all: Vec<usize> = (0..N_LAYOUTS).collect();
        let deep = if ctx.thorough() { 2 } else { 1 };
        let opts = FamOpts { max_inter: deep, mod_pairs: false, key_then_mod_pairs: false, modifier_keys: true };
        decoder_family_opts(ctx, "family:raw keys through EventDecoder after short histories", &all, &|_l| ALL_KEYS.to_vec(), opts, family_intermediates(), |_l, k, m, _mode, out| {
            if k == KeyCode::NumpadLock && m & M_RCTRL2 != 0 {
                // the second half of the Pause sequence: the statement of C04/C14 names this press PauseBreak
                return if *out != Ok(DecodedKey::RawKey(KeyCode::PauseBreak)) { Some(("pause".into(), "RawKey(PauseBreak)".into())) } else { None };
            }
            if RAW52.contains(&k) {
                return if *out != Ok(DecodedKey::RawKey(k)) { Some(("must-be-raw".into(), format!("RawKey({:?})", k))) } else { None };
            }
            if let Ok(DecodedKey::RawKey(r)) = out {
                let alias = NUMPAD_DIGITS.iter().find(|(d, _, _)| *d == k).and_then(|(_, _, a)| *a);
                if !(*r == k || (alias == Some(*r) && !r_numlock(m))) {
                    return Some(("masquerades".into(), format!("RawKey({:?}) or a character", k)));
                }
            }
            None
        });
    }
    ctx.sample_run("layout:anyref:jis109", &["map:F5:511:Map", "map:Oem9:1:Map", "map:Numpad1:0:Ignore", "map:Numpad1:16:Ignore"]);
    ctx.sample(json!({"key": "F5", "modifiers": "any of 512", "reference": "RawKey(F5) on every layout"}));
    ctx.sample(json!({"key": "Numpad1", "modifiers": "numlock off", "reference": "RawKey(End) is the only raw key other than Numpad1 it may decode to"}));
    (nt, "30 layout objects x 124 keys x all 512 modifier values x both modes; non-trivial = points on the 52 character-less keys plus every point whose output is a raw key".into())
}

// ---- C17 ---------------------------------------------------------------------------------------

pub fn c17(ctx: &mut Ctx) -> (u64, String) {
    // differential: wrapper forms vs the wrapped layout
    let outs = par_chunks(2 * N_LAYOUTS, |i| {
        let form = 1 + i / N_LAYOUTS;
        let l = i % N_LAYOUTS;
        let mut o = ChunkOut::new();
        for k in ALL_KEYS {
            for mode in MODES {
                for m in 0..512u16 {
                    let mods = mods_from_bits(m);
                    let w = call(form, l, k, &mods, mode);
                    let d = call(0, l, k, &mods, mode);
                    o.evals += 1;
                    o.nontrivial += 1;
                    if w != d {
                        o.bad(LBad {
                            key: format!("{}:{}/{}/differs-from-wrapped", FORM_NAMES[form], LAYOUT_NAMES[l], key_name(k)),
                            text: format!(
                                "{} holding {}: key {:?} with modifiers [{}] (mode {}) gives {} but the wrapped layout itself gives {}",
                                if form == 1 { "AnyLayout" } else { "&AnyLayout" }, LAYOUT_NAMES[l], k, mods_text(m), mode_name(mode), otext(&w), otext(&d)
                            ),
                            form, l, k, m, mode, expected: otext(&d), observed: otext(&w),
                        });
                    }
                }
            }
        }
        o
    });
    let mut evals = 0;
    let mut nt = 0;
    for o in outs {
        evals += o.evals;
        nt += o.nontrivial;
        for b in o.bads {
            let comp = format!("layout:{}:{}", FORM_NAMES[b.form], LAYOUT_NAMES[b.l]);
            let comp_d = format!("layout:direct:{}", LAYOUT_NAMES[b.l]);
            ctx.violation(
                &b.key,
                &b.text,
                Replay { parts: vec![(comp_d, vec![Op::Map(b.k, b.m, b.mode)]), (comp, vec![Op::Map(b.k, b.m, b.mode)])], expected: b.expected.clone(), observed_last: Some(b.observed.clone()) },
            );
        }
    }
    ctx.evaluations += evals;
    ctx.part("sweep:AnyLayout / &AnyLayout vs wrapped layout", json!({"variants": 10, "wrapper_forms": 2, "points_compared": evals}));

    // distinguishability of the ten tables: number of differing points per pair (makes a crossed arm observable)
    let mut min_diff = u64::MAX;
    let mut pairs = vec![];
    for a in 0..N_LAYOUTS {
        for b in (a + 1)..N_LAYOUTS {
            let mut d = 0u64;
            for k in ALL_KEYS {
                for m in [M_NUM, M_NUM | M_LSHIFT, M_NUM | M_RALT, M_NUM | M_LCTRL] {
                    let mods = mods_from_bits(m);
                    if guarded(|| map_direct(a, k, &mods, HandleControl::MapLettersToUnicode)) != guarded(|| map_direct(b, k, &mods, HandleControl::MapLettersToUnicode)) {
                        d += 1;
                    }
                }
            }
            min_diff = min_diff.min(d);
            pairs.push(json!([LAYOUT_NAMES[a], LAYOUT_NAMES[b], d]));
        }
    }
    ctx.set("pairwise_differing_points", json!(pairs));
    ctx.expect(min_diff > 0, "the ten layouts are pairwise distinguishable (otherwise a crossed AnyLayout arm could not be observed)");

    // change_layout over all ordered pairs on a real EventDecoder<AnyLayout> (both forms)
    let paths = mods_paths();
    // quick tier: the plain states, each single modifier, and the usual layout-switch chords (Shift+Alt, Shift+Ctrl, ...)
    let probe_mods: Vec<u16> = if ctx.thorough() {
        (0..512u16).collect()
    } else {
        vec![M_NUM, M_NUM | M_LSHIFT, M_NUM | M_RALT, M_NUM | M_LCTRL, M_NUM | M_CAPS, 0, M_NUM | M_LSHIFT | M_LALT, M_NUM | M_LSHIFT | M_LCTRL, M_NUM | M_RSHIFT | M_RALT, M_NUM | M_RCTRL | M_RSHIFT, M_NUM | M_LCTRL | M_LALT]
    };
    let mut n = 0u64;
    for from in 0..N_LAYOUTS {
        for to in 0..N_LAYOUTS {
            for (byref, cmode) in [(false, HandleControl::MapLettersToUnicode), (true, HandleControl::MapLettersToUnicode), (false, HandleControl::Ignore), (true, HandleControl::Ignore)] {
                for m in &probe_mods {
                    macro_rules! body {
                        ($d:expr, $mk:expr, $spec:expr) => {{
                            for k in ALL_KEYS {
                                if is_modifier_key(k) {
                                    continue;
                                }
                                // a fresh decoder for every key: the recorded replay is exactly what was executed
                                let mut d = $d;
                                let prep = guarded(|| {
                                    for (k, s) in &paths[*m as usize] {
                                        let _ = d.process_keyevent(KeyEvent::new(*k, *s));
                                    }
                                    let _ = d.change_layout($mk);
                                });
                                if prep.is_err() {
                                    continue;
                                }
                                let got = guarded(|| d.process_keyevent(KeyEvent::new(k, KeyState::Down)));
                                let want = guarded(|| Some(map_direct(to, k, &mods_from_bits(*m), cmode)));
                                n += 1;
                                if got != want {
                                    let (got, want) = (got.clone().unwrap_or(None), want.clone().unwrap_or(None));
                                    let comp = format!("ed:{}-{}:{}", $spec, LAYOUT_NAMES[from], mode_name(cmode));
                                    let mut ops: Vec<Op> = paths[*m as usize].iter().map(|(k, s)| Op::Key(*k, *s)).collect();
                                    ops.push(Op::Layout(to as u8));
                                    ops.push(Op::Key(k, KeyState::Down));
                                    ctx.violation(
                                        &format!("{}:switch/{}->{}/{}", $spec, LAYOUT_NAMES[from], LAYOUT_NAMES[to], key_name(k)),
                                        &format!("EventDecoder<{}> in mode {}: after change_layout from {} to {}, key {:?} with modifiers [{}] must give {} but gives {}", $spec, mode_name(cmode), LAYOUT_NAMES[from], LAYOUT_NAMES[to], k, mods_text(*m), crate::replay::fmt_dk(&want), crate::replay::fmt_dk(&got)),
                                        Replay::one(&comp, ops, &crate::replay::fmt_dk(&want), Some(crate::replay::fmt_dk(&got))),
                                    );
                                }
                            }
                        }};
                    }
                    if byref {
                        body!(EventDecoder::new(any_static(from), cmode), any_static(to), "anyref");
                    } else {
                        body!(EventDecoder::new(any_of(from), cmode), any_of(to), "any");
                    }
                }
            }
        }
    }
    ctx.evaluations += n;
    ctx.part("replay:change_layout over all 10x10 ordered pairs, both wrapper forms, both Ctrl modes", json!({"modifier_states_probed": probe_mods.len(), "presses_checked": n}));
    // chains of switches: from every variant, every sequence of 2 (and 3) further change_layout calls; the decoder must
    // answer as the LAST variant installed (a decoder that honours only the first switch, or that toggles, passes every
    // single-switch check)
    {
        let plain: Vec<KeyCode> = ALL_KEYS.iter().copied().filter(|k| !is_modifier_key(*k)).collect();
        let chain_mods = [M_NUM, M_NUM | M_LSHIFT, M_NUM | M_RALT, M_NUM | M_LCTRL, M_NUM | M_CAPS, 0, M_NUM | M_LSHIFT | M_LALT, M_NUM | M_RCTRL | M_RSHIFT];
        let max_len = 3usize;
        let results = par_chunks(100, |pair| {
            let from = pair / 10;
            let b1 = pair % 10;
            let mut n = 0u64;
            let mut bads: Vec<(bool, HandleControl, Vec<usize>, u16, KeyCode, String, String)> = vec![];
            let mut chains: Vec<Vec<usize>> = vec![];
            for b2 in 0..N_LAYOUTS {
                chains.push(vec![b1, b2]);
                if max_len >= 3 {
                    for b3 in 0..N_LAYOUTS {
                        chains.push(vec![b1, b2, b3]);
                    }
                }
            }
            for (byref, cmode) in [(false, HandleControl::MapLettersToUnicode), (true, HandleControl::Ignore)] {
                for ch in &chains {
                    let to = *ch.last().unwrap();
                    for m in chain_mods {
                        macro_rules! body {
                            ($d:expr, $mk:expr) => {{
                                for k in &plain {
                                    let mut d = $d;
                                    let prep = guarded(|| {
                                        for (k, s) in &paths[m as usize] {
                                            let _ = d.process_keyevent(KeyEvent::new(*k, *s));
                                        }
                                        for l in ch {
                                            let _ = d.change_layout($mk(*l));
                                        }
                                    });
                                    if prep.is_err() {
                                        continue;
                                    }
                                    let got = guarded(|| d.process_keyevent(KeyEvent::new(*k, KeyState::Down)));
                                    let want = guarded(|| Some(map_direct(to, *k, &mods_from_bits(m), cmode)));
                                    n += 1;
                                    if got != want && bads.len() < 3 {
                                        let f = |r: &Result<Option<DecodedKey>, String>| match r {
                                            Ok(v) => crate::replay::fmt_dk(v),
                                            Err(p) => p.clone(),
                                        };
                                        bads.push((byref, cmode, ch.clone(), m, *k, f(&want), f(&got)));
                                    }
                                }
                            }};
                        }
                        if byref {
                            body!(EventDecoder::new(any_static(from), cmode), any_static);
                        } else {
                            body!(EventDecoder::new(any_of(from), cmode), any_of);
                        }
                    }
                }
            }
            (from, n, bads)
        });
        let mut n = 0;
        for (from, c, bads) in results {
            n += c;
            for (byref, cmode, ch, m, k, want, got) in bads {
                let spec = if byref { "anyref" } else { "any" };
                let comp = format!("ed:{}-{}:{}", spec, LAYOUT_NAMES[from], mode_name(cmode));
                let mut ops: Vec<Op> = paths[m as usize].iter().map(|(k, s)| Op::Key(*k, *s)).collect();
                ops.extend(ch.iter().map(|l| Op::Layout(*l as u8)));
                ops.push(Op::Key(k, KeyState::Down));
                let names: Vec<&str> = ch.iter().map(|l| LAYOUT_NAMES[*l]).collect();
                ctx.violation(
                    &format!("{}:switch-chain/{}->{}/{}", spec, LAYOUT_NAMES[from], names.join("->"), key_name(k)),
                    &format!("EventDecoder<{}> built with {}: after change_layout to {} in turn, key {:?} with modifiers [{}] must give {} (what {} gives) but gives {}", spec, LAYOUT_NAMES[from], names.join(", "), k, mods_text(m), want, names[names.len() - 1], got),
                    Replay::one(&comp, ops, &want, Some(got)),
                );
            }
        }
        ctx.evaluations += n;
        ctx.part("replay:chains of 2 and 3 change_layout calls from every variant, both wrapper forms", json!({"chains": 100 * (10 + 100), "modifier_states_probed": chain_mods.len(), "forms": "AnyLayout in Map mode, &AnyLayout in Ignore mode", "presses_checked": n}));
    }
    // histories X, Y, change_layout(to), X: the second X must be decoded by the new variant (a decoder that remembers
    // earlier look-ups must forget them all when the layout is switched)
    {
        let plain: Vec<KeyCode> = ALL_KEYS.iter().copied().filter(|k| !is_modifier_key(*k)).collect();
        let ys = [KeyCode::A, KeyCode::S, KeyCode::D, KeyCode::F, KeyCode::Key1, KeyCode::Key2, KeyCode::Numpad8, KeyCode::F1];
        let results = par_chunks(100, |pair| {
            let from = pair / 10;
            let to = pair % 10;
            let mut n = 0u64;
            let mut bads = vec![];
            for byref in [false, true] {
                for x in &plain {
                    for y in &ys {
                        macro_rules! body {
                            ($d:expr, $mk:expr) => {{
                                let mut d = $d;
                                let got = guarded(|| {
                                    let _ = d.process_keyevent(KeyEvent::new(*x, KeyState::Down));
                                    let _ = d.process_keyevent(KeyEvent::new(*y, KeyState::Down));
                                    let _ = d.change_layout($mk);
                                    d.process_keyevent(KeyEvent::new(*x, KeyState::Down))
                                });
                                let want = guarded(|| Some(map_direct(to, *x, &mods_from_bits(M_INIT), HandleControl::MapLettersToUnicode)));
                                n += 1;
                                if got != want && bads.len() < 4 {
                                    let f = |r: &Result<Option<DecodedKey>, String>| match r {
                                        Ok(v) => crate::replay::fmt_dk(v),
                                        Err(p) => p.clone(),
                                    };
                                    bads.push((from, to, byref, *x, *y, f(&want), f(&got)));
                                }
                            }};
                        }
                        if byref {
                            body!(EventDecoder::new(any_static(from), HandleControl::MapLettersToUnicode), any_static(to));
                        } else {
                            body!(EventDecoder::new(any_of(from), HandleControl::MapLettersToUnicode), any_of(to));
                        }
                    }
                }
            }
            (n, bads)
        });
        let mut n = 0;
        for (c, bads) in results {
            n += c;
            for (from, to, byref, x, y, want, got) in bads {
                let spec = if byref { "anyref" } else { "any" };
                let comp = format!("ed:{}-{}:Map", spec, LAYOUT_NAMES[from]);
                let ops = vec![Op::Key(x, KeyState::Down), Op::Key(y, KeyState::Down), Op::Layout(to as u8), Op::Key(x, KeyState::Down)];
                ctx.violation(
                    &format!("{}:switch-after-typing/{}->{}/{}", spec, LAYOUT_NAMES[from], LAYOUT_NAMES[to], key_name(x)),
                    &format!("EventDecoder<{}>: press {:?}, press {:?}, change_layout from {} to {}, press {:?} again: must give {} (what {} gives) but gives {}", spec, x, y, LAYOUT_NAMES[from], LAYOUT_NAMES[to], x, want, LAYOUT_NAMES[to], got),
                    Replay::one(&comp, ops, &want, Some(got)),
                );
            }
        }
        ctx.evaluations += n;
        ctx.part("replay:X, Y, change_layout, X over all 10x10 pairs, both wrapper forms", json!({"histories_checked": n}));
    }
    // decoder-level differential over the REAL layout types (not the harness's `Wrap`): EventDecoder<L>,
    // EventDecoder<AnyLayout::L> and EventDecoder<&AnyLayout::L> must answer every history identically - this also
    // covers anything the decoder asks the layout besides map_keycode (e.g. a future provided trait method that one
    // of the two wrapper impls forgets to forward)
    {
        use pc_keyboard::layouts::*;
        let mut modev: Vec<(KeyCode, KeyState)> = vec![];
        for k in ALL_KEYS {
            if is_modifier_key(k) {
                modev.push((k, KeyState::Down));
                modev.push((k, KeyState::Up));
            }
        }
        let depth = if ctx.thorough() { 3 } else { 2 };
        let mut hists: Vec<Vec<(KeyCode, KeyState)>> = vec![vec![]];
        let mut frontier: Vec<Vec<(KeyCode, KeyState)>> = vec![vec![]];
        for _ in 0..depth {
            let mut next = vec![];
            for h in &frontier {
                for e in &modev {
                    let mut h2 = h.clone();
                    h2.push(*e);
                    next.push(h2);
                }
            }
            hists.extend(next.iter().cloned());
            frontier = next;
        }
        let plain: Vec<KeyCode> = ALL_KEYS.iter().copied().filter(|k| !is_modifier_key(*k)).collect();
        fn run_hist<L: pc_keyboard::KeyboardLayout>(layout: L, mode: HandleControl, h: &[(KeyCode, KeyState)], k: KeyCode) -> Result<Option<DecodedKey>, String> {
            guarded(|| {
                let mut d = EventDecoder::new(layout, mode);
                for (mk, ms) in h {
                    let _ = d.process_keyevent(KeyEvent::new(*mk, *ms));
                }
                d.process_keyevent(KeyEvent::new(k, KeyState::Down))
            })
        }
        let results = par_chunks(N_LAYOUTS, |l| {
            let mut n = 0u64;
            let mut bads = vec![];
            for mode in MODES {
                for h in &hists {
                    for k in &plain {
                        macro_rules! tri {
                            ($t:expr) => {{
                                (run_hist($t, mode, h, *k), run_hist(any_of(l), mode, h, *k), run_hist(any_static(l), mode, h, *k))
                            }};
                        }
                        let (direct, byval, byref) = match l {
                            0 => tri!(Us104Key),
                            1 => tri!(Uk105Key),
                            2 => tri!(De105Key),
                            3 => tri!(Azerty),
                            4 => tri!(No105Key),
                            5 => tri!(FiSe105Key),
                            6 => tri!(Jis109Key),
                            7 => tri!(Colemak),
                            8 => tri!(Dvorak104Key),
                            _ => tri!(DVP104Key),
                        };
                        n += 2;
                        for (form, got) in [("any", &byval), ("anyref", &byref)] {
                            if *got != direct && bads.len() < 6 {
                                let f = |r: &Result<Option<DecodedKey>, String>| match r {
                                    Ok(v) => crate::replay::fmt_dk(v),
                                    Err(p) => p.clone(),
                                };
                                bads.push((l, form, mode, h.clone(), *k, f(&direct), f(got)));
                            }
                        }
                    }
                }
            }
            (n, bads)
        });
        let mut n = 0;
        for (c, bads) in results {
            n += c;
            for (l, form, mode, h, k, want, got) in bads {
                let comp = format!("ed:{}-{}:{}", form, LAYOUT_NAMES[l], mode_name(mode));
                let mut ops: Vec<Op> = h.iter().map(|(k, s)| Op::Key(*k, *s)).collect();
                ops.push(Op::Key(k, KeyState::Down));
                let ht: Vec<String> = h.iter().map(|(k, s)| format!("{:?} {:?}", k, s)).collect();
                ctx.violation(
                    &format!("{}:{}/{}/decoder-differs-from-wrapped", form, LAYOUT_NAMES[l], key_name(k)),
                    &format!("EventDecoder over {} holding {} (mode {}): after [{}], pressing {:?} gives {} but an EventDecoder over the wrapped layout type itself gives {}", if form == "any" { "AnyLayout" } else { "&AnyLayout" }, LAYOUT_NAMES[l], mode_name(mode), ht.join(", "), k, got, want),
                    Replay::one(&comp, ops, &want, Some(got)),
                );
            }
        }
        ctx.evaluations += n;
        ctx.part("replay:EventDecoder<L> vs EventDecoder<AnyLayout> vs EventDecoder<&AnyLayout> over modifier histories (real layout types)", json!({"history_depth": depth, "histories": hists.len(), "keys": plain.len(), "modes": 2, "comparisons": n}));
    }
    ctx.sample_run("layout:anyref:azerty", &["map:Q:16:Map"]);
    ctx.sample_run("layout:direct:azerty", &["map:Q:16:Map"]);
    ctx.sample_run("ed:anyref-no105:Map", &["key:Oem1:Down", "layout:5", "key:Oem1:Down"]);
    ctx.sample(json!({"wrapper": "&AnyLayout::Azerty", "key": "Q", "modifiers": "numlock", "reference": "what Azerty gives: 'a'"}));
    let _ = (Keyboard::new(ScancodeSet2::new(), Echo(0), HandleControl::Ignore), BTreeSet::<u8>::new());
    (nt, "10 variants x 2 wrapper forms x 124 keys x 512 modifier values x 2 modes, each compared with the wrapped layout called directly; change_layout over all 10 x 10 ordered pairs; every point is a comparison".into())
}
