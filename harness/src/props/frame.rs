//! C05 (frame acceptance) and C06 (bit-serial framing == whole-word decoding, frames independent).

use crate::common::*;
use crate::explore::*;
use crate::props::scan::distinguish;
use crate::replay::{fmt_byte, fmt_ev, fmt_optbyte, Op, Replay};
use crate::report::Ctx;
use pc_keyboard::{Error, HandleControl, Keyboard, Ps2Decoder, ScancodeSet, ScancodeSet1, ScancodeSet2};
use serde_json::json;
use std::panic::{catch_unwind, AssertUnwindSafe};
use std::sync::Arc;

/// R-FRAME: written from the add_word documentation / the PS/2 protocol.
/// bit 0 start (must be 0), bits 1..8 data LSB first, bit 9 parity (odd over data+parity),
/// bit 10 stop (must be 1). Error priority: start > stop > parity.
pub fn r_frame(word: u16) -> Result<u8, Error> {
    let start = word & 1;
    let stop = (word >> 10) & 1;
    let parity = (word >> 9) & 1;
    let data = ((word >> 1) & 0xFF) as u8;
    if start != 0 {
        return Err(Error::BadStartBit);
    }
    if stop != 1 {
        return Err(Error::BadStopBit);
    }
    let mut ones = parity;
    for i in 0..8 {
        ones += ((data >> i) & 1) as u16;
    }
    if ones % 2 != 1 {
        return Err(Error::ParityError);
    }
    Ok(data)
}

/// encode a byte as a valid frame (independent of r_frame's parity loop: table-free xor fold)
pub fn encode(b: u8) -> u16 {
    let mut x = b;
    x ^= x >> 4;
    x ^= x >> 2;
    x ^= x >> 1;
    let odd_data = (x & 1) as u16; // 1 if data has odd number of ones
    let parity = 1 - odd_data; // make total odd
    ((b as u16) << 1) | (parity << 9) | (1 << 10)
}

fn word_ops_bits(w: u16) -> Vec<Op> {
    (0..11).map(|i| Op::Bit((w >> i) & 1 != 0)).collect()
}

pub fn c05(ctx: &mut Ctx) -> (u64, String) {
    ctx.trust("R-FRAME: start=0, stop=1, odd parity over data+parity, data = bits 1..8 LSB first, error priority start > stop > parity (harness/src/props/frame.rs r_frame)");
    ctx.assume("words with bits above bit 10 set are outside the documented precondition: only checked for 'no panic' (C08)");
    let mut accepted = 0u64;
    let mut nontrivial = 0u64;
    let mut classes = [0u64; 4];
    // (1) all 2048 frames through Ps2Decoder::add_word
    let mut dec = Ps2Decoder::new();
    for w in 0..2048u16 {
        let want = r_frame(w);
        let got = catch_unwind(AssertUnwindSafe(|| dec.add_word(w)));
        ctx.evaluations += 1;
        match &want {
            Ok(_) => {
                accepted += 1;
                classes[0] += 1
            }
            Err(Error::BadStartBit) => classes[1] += 1,
            Err(Error::BadStopBit) => classes[2] += 1,
            _ => classes[3] += 1,
        }
        let (ok, obs) = match &got {
            Ok(g) => (*g == want, fmt_byte(g)),
            Err(_) => (false, "PANIC".to_string()),
        };
        if !ok {
            let obs = if obs == "PANIC" { crate::replay::guard(|| fmt_byte(&dec.add_word(w))) } else { obs };
            ctx.violation(
                &format!("ps2/add_word/0x{:03X}", w),
                &format!("Ps2Decoder::add_word(0x{:03X}) must give {} but gives {}", w, fmt_byte(&want), obs),
                Replay::one("ps2", vec![Op::Word(w)], &fmt_byte(&want), Some(obs)),
            );
        }
    }
    ctx.expect(accepted == 256, "exactly 256 of the 2048 frames are valid by R-FRAME");
    ctx.expect((0..=255u8).all(|b| r_frame(encode(b)) == Ok(b)), "R-FRAME accepts encode(b) for every byte (two independent formulations agree)");
    ctx.part("add_word:all-2048-frames", json!({"frames": 2048, "valid_by_reference": accepted, "bad_start": classes[1], "bad_stop": classes[2], "parity": classes[3]}));

    // (2) through Keyboard::add_word, both sets: frame errors exactly; accepted frames -> what a
    //     fresh keyboard returns for add_byte(data)
    fn kb_words<S: ScancodeSet + Clone>(ctx: &mut Ctx, set: &str, mk: fn() -> S) {
        for w in 0..2048u16 {
            let want = r_frame(w);
            let mut k = Keyboard::new(mk(), Echo(0), HandleControl::Ignore);
            let got = catch_unwind(AssertUnwindSafe(|| k.add_word(w)));
            ctx.evaluations += 1;
            let comp = format!("kb:echo-0:{}:Ignore", set);
            let (ok, obs, exp) = match (&got, &want) {
                (Err(_), _) => (false, "PANIC".to_string(), "no panic".to_string()),
                (Ok(g), Err(fe)) => (*g == Err(*fe), fmt_ev(g), format!("Err({:?})", fe)),
                (Ok(g), Ok(b)) => {
                    let mut k2 = Keyboard::new(mk(), Echo(0), HandleControl::Ignore);
                    let e = k2.add_byte(*b);
                    (*g == e, fmt_ev(g), format!("{} (= add_byte(0x{:02X}) on a fresh keyboard)", fmt_ev(&e), b))
                }
            };
            if !ok {
                let obs2 = crate::replay::run_part(&comp, &[Op::Word(w)]).pop().unwrap_or(obs);
                ctx.violation(
                    &format!("kb-{}/add_word/0x{:03X}", set, w),
                    &format!("Keyboard::add_word(0x{:03X}) [{}] must give {} but gives {}", w, set, exp, obs2),
                    Replay::one(&comp, vec![Op::Word(w)], &exp, Some(obs2)),
                );
            }
        }
    }
    kb_words::<ScancodeSet2>(ctx, "set2", ScancodeSet2::new);
    kb_words::<ScancodeSet1>(ctx, "set1", ScancodeSet1::new);
    ctx.part("Keyboard::add_word:all-2048-frames", json!({"frames": 2048, "sets": 2}));

    // (3) fault sequences: every valid frame with each 1-bit and 2-bit corruption, whole-word and bit-serial
    let mut single = 0u64;
    let mut double = 0u64;
    let mut undetect = 0u64;
    for b in 0..=255u8 {
        let f = encode(b);
        // round trip
        for (name, r) in [("word", catch_unwind(AssertUnwindSafe(|| dec.add_word(f))).unwrap_or(Err(Error::UnknownKeyCode)))] {
            ctx.evaluations += 1;
            nontrivial += 1;
            if r != Ok(b) {
                ctx.violation(
                    &format!("ps2/roundtrip/0x{:02X}", b),
                    &format!("the valid frame 0x{:03X} for byte 0x{:02X} ({}) does not round-trip: {}", f, b, name, fmt_byte(&r)),
                    Replay::one("ps2", vec![Op::Word(f)], &format!("Ok(0x{:02X})", b), Some(fmt_byte(&r))),
                );
            }
        }
        for i in 0..11 {
            for j in i..11 {
                let c = if i == j { f ^ (1 << i) } else { f ^ (1 << i) ^ (1 << j) };
                let want = r_frame(c);
                if i == j {
                    single += 1;
                    ctx.expect(want.is_err(), "R-FRAME rejects every single-bit corruption");
                } else {
                    double += 1;
                    if want.is_ok() {
                        undetect += 1;
                    }
                }
                nontrivial += 1;
                // whole word
                let got = catch_unwind(AssertUnwindSafe(|| dec.add_word(c))).unwrap_or(Err(Error::UnknownKeyCode));
                // bit-serial on a fresh decoder
                let mut d2 = Ps2Decoder::new();
                let mut last = Ok(None);
                let serial = catch_unwind(AssertUnwindSafe(|| {
                    for k in 0..11 {
                        last = d2.add_bit((c >> k) & 1 != 0);
                    }
                    last
                }));
                ctx.evaluations += 2;
                if got != want {
                    ctx.violation(
                        &format!("ps2/add_word/0x{:03X}", c),
                        &format!("corruption (bits {},{}) of the frame for 0x{:02X}: add_word(0x{:03X}) must give {} but gives {}", i, j, b, c, fmt_byte(&want), fmt_byte(&got)),
                        Replay::one("ps2", vec![Op::Word(c)], &fmt_byte(&want), Some(fmt_byte(&got))),
                    );
                }
                let want_serial: Result<Option<u8>, Error> = want.map(Some);
                let serial_ok = matches!(&serial, Ok(s) if *s == want_serial);
                if !serial_ok {
                    let obs = match &serial {
                        Ok(s) => fmt_optbyte(s),
                        Err(_) => "PANIC".into(),
                    };
                    let obs2 = crate::replay::run_part("ps2", &word_ops_bits(c)).pop().unwrap_or(obs);
                    ctx.violation(
                        &format!("ps2/add_bit-frame/0x{:03X}", c),
                        &format!("corruption (bits {},{}) of the frame for 0x{:02X} shifted in bit by bit must end in {} but ends in {}", i, j, b, fmt_optbyte(&want_serial), obs2),
                        Replay::one("ps2", word_ops_bits(c), &fmt_optbyte(&want_serial), Some(obs2)),
                    );
                }
            }
        }
    }
    ctx.part("fault-sequences", json!({"valid_frames": 256, "single_bit_corruptions": single, "double_bit_corruptions": double, "double_bit_corruptions_undetectable_by_parity": undetect}));

    // (4) fault sequences on ONE decoder, bit-serial: every frame (valid or corrupted: all 2048) followed by
    //     every valid frame; the second frame must still be accepted and yield its byte
    let results = par_chunks(2048, |w1| {
        let w1 = w1 as u16;
        let mut n = 0u64;
        let mut bads = vec![];
        let first = catch_unwind(AssertUnwindSafe(|| {
            let mut d = Ps2Decoder::new();
            let mut last = Ok(None);
            for k in 0..11 {
                last = d.add_bit((w1 >> k) & 1 != 0);
            }
            (d, last)
        }));
        let Ok((d, last1)) = first else { return (1, vec![(w1, 0u16, "no panic".to_string(), "PANIC".to_string(), true)]) };
        if last1 != r_frame(w1).map(Some) {
            bads.push((w1, 0, fmt_optbyte(&r_frame(w1).map(Some)), fmt_optbyte(&last1), true));
        }
        for b in 0..=255u8 {
            let w2 = encode(b);
            let mut d2 = d.clone();
            let r = catch_unwind(AssertUnwindSafe(|| {
                let mut last = Ok(None);
                for k in 0..11 {
                    last = d2.add_bit((w2 >> k) & 1 != 0);
                    if k < 10 && last != Ok(None) {
                        break;
                    }
                }
                last
            }));
            n += 1;
            let got = match &r {
                Ok(x) => fmt_optbyte(x),
                Err(_) => "PANIC".to_string(),
            };
            if r.ok() != Some(Ok(Some(b))) && bads.len() < 4 {
                bads.push((w1, w2, format!("Ok(Some(0x{:02X}))", b), got, false));
            }
        }
        (n, bads)
    });
    let mut pairs = 0u64;
    for (n, bads) in results {
        pairs += n;
        for (w1, w2, want, _got, first_only) in bads {
            let mut ops = word_ops_bits(w1);
            if !first_only {
                ops.extend(word_ops_bits(w2));
            }
            let t = crate::replay::run_part("ps2", &ops);
            // trim to the first position that deviates from 'incomplete' inside the last frame
            let start = if first_only { 0 } else { 11 };
            let upto = t.iter().enumerate().skip(start).find(|(i, s)| (*i < start + 10 && *s != "Ok(None)") || *i == start + 10).map(|(i, _)| i + 1).unwrap_or(ops.len());
            ops.truncate(upto);
            let obs = t[upto - 1].clone();
            ctx.violation(
                &format!("ps2/add_bit-sequence/0x{:03X}-then-0x{:03X}", w1, w2),
                &format!("frame 0x{:03X} shifted in bit by bit{}: the last bit must give {} but gives {}", w1, if first_only { String::new() } else { format!(" followed by the valid frame 0x{:03X}", w2) }, want, obs),
                Replay::one("ps2", ops, &want, Some(obs)),
            );
        }
    }
    ctx.evaluations += pairs;
    nontrivial += 2048;
    ctx.part("fault-sequences:any frame then a valid frame on one decoder (bit-serial)", json!({"first_frames": 2048, "second_frames": 256, "pairs": pairs}));
    // (5) and after clear() from every partial prefix every frame is judged by the same rule
    report_clear_sweep(ctx);
    ps2_default_check(ctx);
    report_frame_chains(ctx, "ps2/c05");
    ctx.sample_run("ps2", &["word:0402", "word:0403", "word:0002", "word:0602", "word:07FE"]);
    ctx.sample_run("kb:echo-0:set2:Ignore", &["word:0402", "word:0403", "word:05C0", "word:0438"]);
    ctx.sample(json!({"word": "0x402", "bits": "start=0 data=0x01 parity=0 stop=1", "reference": "Ok(0x01)"}));
    ctx.sample(json!({"word": "0x403", "reference": "Err(BadStartBit) (priority over the now-wrong parity)"}));
    ctx.sample(json!({"word": "0x002", "reference": "Err(BadStopBit)"}));
    ctx.exhaustive = true;
    (
        nontrivial,
        "all 2048 11-bit words via Ps2Decoder::add_word and Keyboard::add_word (both sets); all 256 encodings; every 1-bit (11) and 2-bit (55) corruption of every valid frame, whole-word and bit-serial; non-trivial = the 256 round-trips + 16896 distinct corruption cases".into(),
    )
}

pub type TB = (Vec<bool>, String, String);
/// `forced`: bits the first levels must take (the chunk prefix); guard: per-call catch_unwind
fn bit_rec(d: &Ps2Decoder, word: u16, cnt: usize, pos: usize, total: usize, forced: &[bool], guard: bool, path: &mut Vec<bool>, n: &mut u64, bads: &mut Vec<TB>) {
    let choices: &[bool] = if pos < forced.len() { &forced[pos..pos + 1] } else { &[false, true] };
    for &b in choices {
        let mut d2 = d.clone();
        let r: Result<Result<Option<u8>, Error>, ()> = if guard { catch_unwind(AssertUnwindSafe(|| d2.add_bit(b))).map_err(|_| ()) } else { Ok(d2.add_bit(b)) };
        *n += 1;
        let w = word | ((b as u16) << cnt);
        let (want, nw, nc) = if cnt + 1 < 11 { (Ok(None), w, cnt + 1) } else { (r_frame(w).map(Some), 0, 0) };
        if r != Ok(want) && bads.len() < 32 {
            let mut p = path.clone();
            p.push(b);
            bads.push((p, fmt_optbyte(&want), match &r { Ok(x) => fmt_optbyte(x), Err(_) => "PANIC".into() }));
        }
        if r.is_err() {
            continue;
        }
        if pos + 1 < total {
            path.push(b);
            bit_rec(&d2, nw, nc, pos + 1, total, forced, guard, path, n, bads);
            path.pop();
        }
    }
}

/// every bit stream of `total_bits` bits against R-FRAME, outputs only; 256 chunks over the first 8 bits.
/// Fast path unguarded; a chunk that panics is redone with every call guarded (or always, if `always_guard`).
pub fn bit_tree(total_bits: usize, always_guard: bool) -> Vec<((u64, Vec<TB>), bool)> {
    par_chunks(256, |chunk| {
        let forced: Vec<bool> = (0..8).map(|i| (chunk >> i) & 1 != 0).collect();
        let run = |guard: bool| {
            let mut n = 0u64;
            let mut bads: Vec<TB> = vec![];
            let mut path = vec![];
            bit_rec(&Ps2Decoder::new(), 0, 0, 0, total_bits, &forced, guard, &mut path, &mut n, &mut bads);
            (n, bads)
        };
        if always_guard {
            return (run(true), true);
        }
        match catch_unwind(AssertUnwindSafe(|| run(false))) {
            Ok(r) => (r, false),
            Err(_) => (run(true), true),
        }
    })
}

/// pumped frames: every one of the 2048 frames repeated `reps` times on one decoder (bit-serial), each repetition
/// checked against R-FRAME; with `with_clear` a partial copy of the frame and a clear() precede each repetition.
/// Returns (bit positions checked, violations as (frame, repetition, bit index, expected, observed)).
pub fn pump_frames(reps: usize, with_clear: bool) -> (u64, Vec<(u16, usize, usize, String, String)>) {
    let results = par_chunks(2048, |w| {
        let w = w as u16;
        let mut n = 0u64;
        let mut bads = vec![];
        let mut d = Ps2Decoder::new();
        'outer: for rep in 0..reps {
            if with_clear {
                let k = 1 + (rep % 10);
                let r = catch_unwind(AssertUnwindSafe(|| {
                    for i in 0..k {
                        let _ = d.add_bit((w >> i) & 1 != 0);
                    }
                    d.clear();
                }));
                if r.is_err() {
                    bads.push((w, rep, 0, "no panic".to_string(), "PANIC".to_string()));
                    break 'outer;
                }
            }
            for i in 0..11 {
                let b = (w >> i) & 1 != 0;
                let r = catch_unwind(AssertUnwindSafe(|| d.add_bit(b)));
                n += 1;
                let want = if i < 10 { Ok(None) } else { r_frame(w).map(Some) };
                let ok = matches!(&r, Ok(x) if *x == want);
                if !ok {
                    let obs = match &r {
                        Ok(x) => fmt_optbyte(x),
                        Err(_) => "PANIC".to_string(),
                    };
                    bads.push((w, rep, i, fmt_optbyte(&want), obs));
                    break 'outer;
                }
            }
        }
        (n, bads)
    });
    let mut total = 0;
    let mut out = vec![];
    for (n, b) in results {
        total += n;
        out.extend(b);
    }
    (total, out)
}

pub fn pump_frame_ops(w: u16, rep: usize, upto_bit: usize, with_clear: bool) -> Vec<Op> {
    let mut ops = vec![];
    for r in 0..=rep {
        if with_clear {
            let k = 1 + (r % 10);
            for i in 0..k {
                ops.push(Op::Bit((w >> i) & 1 != 0));
            }
            ops.push(Op::Clear);
        }
        let upto = if r == rep { upto_bit + 1 } else { 11 };
        for i in 0..upto {
            ops.push(Op::Bit((w >> i) & 1 != 0));
        }
    }
    ops
}

/// hook-free: clear() from every partial prefix (2047), then every one of the 2048 frames bit by bit.
/// Returns (bit positions checked, failures as (prefix length, prefix bits, frame, expected)).
pub fn clear_sweep() -> (u64, Vec<(usize, u16, u16, String)>) {
    let results = par_chunks(11, |len| {
        let mut n = 0u64;
        let mut bads = vec![];
        for prefix in 0..(1u16 << len) {
            let prep = catch_unwind(AssertUnwindSafe(|| {
                let mut d = Ps2Decoder::new();
                for i in 0..len {
                    let _ = d.add_bit((prefix >> i) & 1 != 0);
                }
                d.clear();
                d
            }));
            let Ok(d) = prep else {
                if bads.len() < 16 {
                    bads.push((len, prefix, 0u16, "no panic".to_string()));
                }
                continue;
            };
            for w in 0..2048u16 {
                let mut d2 = d.clone();
                let want = r_frame(w).map(Some);
                let res = catch_unwind(AssertUnwindSafe(|| {
                    let mut last = Ok(None);
                    for k in 0..11 {
                        last = d2.add_bit((w >> k) & 1 != 0);
                        if k < 10 && last != Ok(None) {
                            return (last, true, k + 1);
                        }
                    }
                    (last, false, 11)
                }));
                match res {
                    Ok((last, early, steps)) => {
                        n += steps as u64;
                        if (early || last != want) && bads.len() < 16 {
                            bads.push((len, prefix, w, fmt_optbyte(&want)));
                        }
                    }
                    Err(_) => {
                        n += 1;
                        if bads.len() < 16 {
                            bads.push((len, prefix, w, fmt_optbyte(&want)));
                        }
                    }
                }
            }
        }
        (n, bads)
    });
    let mut total = 0u64;
    let mut out = vec![];
    for (n, b) in results {
        total += n;
        out.extend(b);
    }
    (total, out)
}

pub fn report_clear_sweep(ctx: &mut Ctx) {
    let (total, bads) = clear_sweep();
    for (len, prefix, w, want) in bads {
        let mut ops: Vec<Op> = (0..len).map(|i| Op::Bit((prefix >> i) & 1 != 0)).collect();
        ops.push(Op::Clear);
        ops.extend(word_ops_bits(w));
        // trim to the failing position
        let t = crate::replay::run_part("ps2", &ops);
        let upto = t.iter().enumerate().skip(len + 1).find(|(i, s)| (*i < len + 11 && *s != "Ok(None)") || *i == len + 11).map(|(i, _)| i + 1).unwrap_or(ops.len());
        ops.truncate(upto);
        let obs = t[upto - 1].clone();
        ctx.violation(
            &format!("ps2/after-clear/{}bits:{:0w$b}/frame:0x{:03X}", len, prefix, w, w = len),
            &format!("{} bits of a partial frame, then clear(), then frame 0x{:03X} bit by bit: must end in {} but gives {}", len, w, want, obs),
            Replay::one("ps2", ops, &want, Some(obs)),
        );
    }
    ctx.evaluations += total;
    ctx.traces_validated += total;
    ctx.part("sweep:clear-from-every-prefix", json!({"engine": "B (hook-free)", "partial_prefixes": 2047, "frames_after_clear": 2048, "bit_positions_checked": total}));
}

/// pumped frame pairs: (w1 w2)^reps on one decoder for every w1 (2048) and every w2 of `seconds`
pub fn pump_frame_pairs(reps: usize, seconds: &[u16]) -> (u64, Vec<(u16, u16, usize, usize, String, String)>) {
    let results = par_chunks(2048, |w1| {
        let w1 = w1 as u16;
        let mut n = 0u64;
        let mut bads = vec![];
        for &w2 in seconds {
            let mut d = Ps2Decoder::new();
            'outer: for rep in 0..reps {
                for (fi, w) in [w1, w2].iter().enumerate() {
                    for i in 0..11 {
                        let b = (w >> i) & 1 != 0;
                        let r = catch_unwind(AssertUnwindSafe(|| d.add_bit(b)));
                        n += 1;
                        let want = if i < 10 { Ok(None) } else { r_frame(*w).map(Some) };
                        if !matches!(&r, Ok(x) if *x == want) {
                            let obs = match &r {
                                Ok(x) => fmt_optbyte(x),
                                Err(_) => "PANIC".to_string(),
                            };
                            if bads.len() < 3 {
                                bads.push((w1, w2, rep, fi * 11 + i, fmt_optbyte(&want), obs));
                            }
                            break 'outer;
                        }
                    }
                }
            }
        }
        (n, bads)
    });
    let mut total = 0;
    let mut out = vec![];
    for (n, b) in results {
        total += n;
        out.extend(b);
    }
    (total, out)
}

pub fn pump_pair_ops(w1: u16, w2: u16, rep: usize, upto: usize) -> Vec<Op> {
    let mut ops = vec![];
    for r in 0..=rep {
        let lim = if r == rep { upto + 1 } else { 22 };
        for j in 0..lim {
            let w = if j < 11 { w1 } else { w2 };
            ops.push(Op::Bit((w >> (j % 11)) & 1 != 0));
        }
    }
    ops
}

/// second frames for the pair pump: quick = 24 representatives (valid, each error class, extremes); thorough = all 2048
pub fn pair_seconds(all: bool) -> Vec<u16> {
    if all {
        return (0..2048u16).collect();
    }
    let mut v = vec![0x000, 0x7FF, 0x001, 0x400, 0x3FF, 0x555, 0x2AA];
    for b in [0x00u8, 0x01, 0x1C, 0x12, 0xE0, 0xF0, 0xAA, 0xFF] {
        let f = encode(b);
        v.push(f);
        v.push(f ^ (1 << 9)); // parity error
    }
    v.push(encode(0x1C) | 1); // bad start
    v.push(encode(0x1C) & !(1 << 10)); // bad stop
    v.sort();
    v.dedup();
    v
}

/// Chains of frames through ONE decoder, bit by bit: first frame = each of the 2048 words, then each given middle
/// sequence of frames, then a last frame = each of the 2048 words; every bit of every frame is judged (incomplete until the
/// 11th bit, then R-FRAME of that frame). A frame decoder whose answer depends on the frame two or three frames back
/// (a second register slot, a diagnostic copy, a mask that misses one bit) passes every single-frame and frame-pair check.
/// Returns (bit positions checked, [(frames of the chain, failing bit index in the chain, expected, observed)]).
pub fn frame_chains(mids: &[Vec<u16>]) -> (u64, Vec<(Vec<u16>, usize, String, String)>) {
    fn feed(d: &mut Ps2Decoder, w: u16, guard: bool, n: &mut u64) -> Option<(usize, String, String)> {
        for i in 0..11 {
            let b = (w >> i) & 1 != 0;
            let r = if guard { catch_unwind(AssertUnwindSafe(|| d.add_bit(b))) } else { Ok(d.add_bit(b)) };
            *n += 1;
            let want = if i < 10 { Ok(None) } else { r_frame(w).map(Some) };
            if !matches!(&r, Ok(x) if *x == want) {
                let obs = match &r {
                    Ok(x) => fmt_optbyte(x),
                    Err(_) => "PANIC".to_string(),
                };
                return Some((i, fmt_optbyte(&want), obs));
            }
        }
        None
    }
    let results = par_chunks(2048, |w1| {
        let w1 = w1 as u16;
        let run = |guard: bool| {
            let mut n = 0u64;
            let mut bads: Vec<(Vec<u16>, usize, String, String)> = vec![];
            let mut d1 = Ps2Decoder::new();
            if let Some((i, want, obs)) = feed(&mut d1, w1, guard, &mut n) {
                bads.push((vec![w1], i, want, obs));
                return (n, bads);
            }
            'mid: for mid in mids {
                let mut d2 = d1.clone();
                let mut chain = vec![w1];
                for (mi, w) in mid.iter().enumerate() {
                    chain.push(*w);
                    if let Some((i, want, obs)) = feed(&mut d2, *w, guard, &mut n) {
                        if bads.len() < 4 {
                            bads.push((chain.clone(), (mi + 1) * 11 + i, want, obs));
                        }
                        continue 'mid;
                    }
                }
                for last in 0..2048u16 {
                    let mut d3 = d2.clone();
                    if let Some((i, want, obs)) = feed(&mut d3, last, guard, &mut n) {
                        if bads.len() < 4 {
                            let mut c = chain.clone();
                            c.push(last);
                            bads.push((c, (mid.len() + 1) * 11 + i, want, obs));
                        }
                        if bads.len() >= 4 {
                            continue 'mid;
                        }
                    }
                }
            }
            (n, bads)
        };
        match catch_unwind(AssertUnwindSafe(|| run(false))) {
            Ok(r) => r,
            Err(_) => run(true),
        }
    });
    let mut total = 0;
    let mut out = vec![];
    for (n, b) in results {
        total += n;
        out.extend(b);
    }
    (total, out)
}

pub fn chain_ops(chain: &[u16], upto: usize) -> Vec<Op> {
    let mut ops = vec![];
    for j in 0..=upto {
        ops.push(Op::Bit((chain[j / 11] >> (j % 11)) & 1 != 0));
    }
    ops
}

/// middle sequences for `frame_chains`: every single representative frame (triples) and every ordered pair of six
/// (quick) / of all 24 (thorough) representative frames (quadruples)
pub fn chain_mids(thorough: bool) -> Vec<Vec<u16>> {
    let reps = pair_seconds(false);
    let six = [encode(0x1C), encode(0xF0), 0x7FF, 0x000, encode(0x1C) ^ (1 << 9), encode(0xE0) & !(1 << 10)];
    let mut v: Vec<Vec<u16>> = reps.iter().map(|w| vec![*w]).collect();
    let pool: Vec<u16> = if thorough { reps.clone() } else { six.to_vec() };
    for a in &pool {
        for b in &pool {
            v.push(vec![*a, *b]);
        }
    }
    v
}

pub fn report_frame_chains(ctx: &mut Ctx, key_prefix: &str) {
    let mids = chain_mids(ctx.thorough());
    let (n, bads) = frame_chains(&mids);
    let nb = bads.len();
    for (chain, upto, want, obs) in bads {
        let names: Vec<String> = chain.iter().map(|w| format!("0x{:03X}", w)).collect();
        ctx.violation(
            &format!("{}/chain/{}/bit{}", key_prefix, names.join("-"), upto % 11),
            &format!("shifting the frames {} through one decoder bit by bit: bit {} of frame {} (0x{:03X}) must give {} but gives {}", names.join(", "), upto % 11 + 1, upto / 11 + 1, chain[upto / 11], want, obs),
            Replay::one("ps2", chain_ops(&chain, upto), &want, Some(obs)),
        );
    }
    ctx.evaluations += n;
    ctx.traces_validated += n;
    ctx.part("chains:all frames x representative middle frames x all frames through one decoder", json!({"engine": "B frame chains", "first_frames": 2048, "middle_sequences": mids.len(), "last_frames": 2048, "bit_positions_checked": n, "violations_recorded": nb}));
}

/// A decoder obtained through `Default::default()` must behave exactly like `new()`: identical by identity, or else
/// every frame (and a valid frame after it) is answered identically bit by bit.
pub fn ps2_default_check(ctx: &mut Ctx) {
    let d0 = Ps2Decoder::default();
    if d0 == Ps2Decoder::new() {
        ctx.part("constructors:ps2-default", json!({"equal_to_new_by_identity": true}));
        return;
    }
    let mut n = 0u64;
    for w in 0..2048u16 {
        let (mut a, mut b) = (d0.clone(), Ps2Decoder::new());
        let mut bits: Vec<bool> = (0..11).map(|i| (w >> i) & 1 != 0).collect();
        bits.extend((0..11).map(|i| (encode(0x1C) >> i) & 1 != 0));
        for (i, bit) in bits.iter().enumerate() {
            let ra = catch_unwind(AssertUnwindSafe(|| a.add_bit(*bit)));
            let rb = catch_unwind(AssertUnwindSafe(|| b.add_bit(*bit)));
            n += 1;
            let f = |r: &std::thread::Result<Result<Option<u8>, Error>>| match r {
                Ok(x) => fmt_optbyte(x),
                Err(_) => "PANIC".to_string(),
            };
            if f(&ra) != f(&rb) {
                let ops: Vec<Op> = bits[..=i].iter().map(|x| Op::Bit(*x)).collect();
                ctx.violation(
                    &format!("ps2/default-differs-from-new/frame:0x{:03X}", w),
                    &format!("a Ps2Decoder obtained through Default::default() answers bit {} of the stream (frame 0x{:03X} then the frame of 0x1C) with {}; one built with new() answers {}", i + 1, w, f(&ra), f(&rb)),
                    Replay { parts: vec![("ps2-default".into(), ops.clone()), ("ps2".into(), ops)], expected: format!("as new(): {}", f(&rb)), observed_last: None },
                );
                break;
            }
            if ra.is_err() {
                break;
            }
        }
    }
    ctx.evaluations += n;
    ctx.part("constructors:ps2-default", json!({"equal_to_new_by_identity": false, "bit_positions_compared": n}));
}

// ---- C06 --------------------------------------------------------------------------------------

#[derive(Clone, Debug, PartialEq)]
pub enum BitAct {
    Bit(bool),
    Clear,
    /// a whole-word decode on the same object in the middle of a bit-serial frame: it must answer like R-FRAME
    /// and leave the frame in progress alone
    Word(u16),
}

pub struct FrameSys {
    alphabet: Vec<BitAct>,
}
impl FrameSys {
    pub fn new() -> Self {
        FrameSys {
            alphabet: vec![
                BitAct::Bit(false),
                BitAct::Bit(true),
                BitAct::Clear,
                BitAct::Word(encode(0x1C)),
                BitAct::Word(encode(0xF0) ^ 1),        // bad start bit
                BitAct::Word(encode(0xE0) ^ (1 << 9)), // parity error
                BitAct::Word(encode(0x77) ^ (1 << 10)), // bad stop bit
            ],
        }
    }
}

impl Sys for FrameSys {
    /// (real decoder, shadow bits, shadow count)
    type S = (Rid<Ps2Decoder>, u16, u8);
    type A = BitAct;
    type O = String;
    fn init(&self) -> Self::S {
        (Rid(Ps2Decoder::new()), 0, 0)
    }
    fn alphabet(&self) -> &[BitAct] {
        &self.alphabet
    }
    fn step(&self, s: &Self::S, a: &BitAct) -> Step<Self::S, String> {
        let mut d = s.0 .0.clone();
        match a {
            BitAct::Clear => {
                let r = catch_unwind(AssertUnwindSafe(|| {
                    let _ = d.clear();
                }));
                let out = if r.is_ok() { "()".to_string() } else { "PANIC".to_string() };
                let bad = if r.is_err() {
                    Some(Bad { key: format!("ps2/clear-panics/{}bits", s.2), text: "Ps2Decoder::clear panicked".into(), expected: "()".into(), observed: out.clone() })
                } else {
                    None
                };
                Step { next: (Rid(d), 0, 0), out, bad }
            }
            BitAct::Word(w) => {
                let r = catch_unwind(AssertUnwindSafe(|| d.add_word(*w)));
                let want = r_frame(*w);
                let out = match &r {
                    Ok(x) => fmt_byte(x),
                    Err(_) => "PANIC".to_string(),
                };
                let bad = if matches!(&r, Ok(x) if *x == want) {
                    None
                } else {
                    Some(Bad {
                        key: format!("ps2/add_word-midframe/0x{:03X}", w),
                        text: format!("with {} frame bits pending, add_word(0x{:03X}) must give {} but gives {}", s.2, w, fmt_byte(&want), out),
                        expected: fmt_byte(&want),
                        observed: out.clone(),
                    })
                };
                // the shadow frame is unchanged: whole-word decoding does not feed the shift register
                Step { next: (Rid(d), s.1, s.2), out, bad }
            }
            BitAct::Bit(b) => {
                let r = catch_unwind(AssertUnwindSafe(|| d.add_bit(*b)));
                let bits = s.1 | ((*b as u16) << s.2);
                let cnt = s.2 + 1;
                let (want, want_txt, nb, nc) = if cnt < 11 {
                    (Ok(None), "Ok(None) (frame incomplete)".to_string(), bits, cnt)
                } else {
                    // exactly what whole-word decoding of those 11 bits returns (real add_word), which must be R-FRAME
                    let whole = catch_unwind(AssertUnwindSafe(|| Ps2Decoder::new().add_word(bits)));
                    let rf = r_frame(bits);
                    let w = match whole {
                        Ok(w) if w == rf => w,
                        // add_word itself is wrong (C05's business): fall back on the reference
                        _ => rf,
                    };
                    (w.map(Some), format!("{} (= whole-word decoding of 0x{:03X})", fmt_optbyte(&w.map(Some)), bits), 0, 0)
                };
                let out = match &r {
                    Ok(x) => fmt_optbyte(x),
                    Err(_) => "PANIC".to_string(),
                };
                let ok = matches!(&r, Ok(x) if *x == want);
                let bad = if ok {
                    None
                } else {
                    Some(Bad {
                        key: format!("ps2/add_bit/prefix:{:0w$b}/bit:{}", s.1, *b as u8, w = s.2 as usize),
                        text: format!("after the {} frame bits {:0w$b} (LSB first, rightmost = first), add_bit({}) must give {} but gives {}", s.2, s.1, *b as u8, want_txt, out, w = s.2 as usize),
                        expected: want_txt,
                        observed: out.clone(),
                    })
                };
                Step { next: (Rid(d), nb, nc), out, bad }
            }
        }
    }
}

fn act_ops(a: &BitAct) -> Op {
    match a {
        BitAct::Bit(b) => Op::Bit(*b),
        BitAct::Clear => Op::Clear,
        BitAct::Word(w) => Op::Word(*w),
    }
}

pub fn c06(ctx: &mut Ctx) -> (u64, String) {
    ctx.trust("R-FRAME (see C05) as second opinion on the 11th-bit result; the primary oracle is the real add_word on the assembled word");
    ctx.assume("state identity of Ps2Decoder = derived PartialEq over all fields (hook H3); the two-/three-frame stream trees and the clear sweep need no hook");
    // (A) closed BFS of real decoder x shadow frame
    let sys = Arc::new(FrameSys::new());
    let (g, sr, errs) = explore_both(sys.clone(), true, 1_200_000);
    for e in errs {
        ctx.machinery(&format!("frame bfs: {}", e));
    }
    for (si, ai, b) in &g.bads {
        let mut ops: Vec<Op> = g.path_to(*si).iter().map(|a| act_ops(&sys.alphabet[*a])).collect();
        ops.push(act_ops(&sys.alphabet[*ai]));
        ctx.violation(&b.key, &b.text, Replay::one("ps2", ops, &b.expected, Some(b.observed.clone())));
    }
    // after the 11th bit and after clear the decoder must be indistinguishable from new()
    let mut reset_edges = 0u64;
    let mut by_identity = 0u64;
    let mut cache: std::collections::HashMap<usize, Option<Vec<usize>>> = std::collections::HashMap::new();
    for s in 0..g.expanded {
        for ai in 0..3 {
            let t = g.succ[s][ai] as usize;
            let (_, _, tc) = &g.states[t];
            let completes = g.states[s].2 == 10 && ai < 2;
            if !(completes || ai == 2) {
                continue;
            }
            debug_assert_eq!(*tc, 0);
            reset_edges += 1;
            if t == 0 {
                by_identity += 1;
                continue;
            }
            if let Some(dseq) = cache.entry(t).or_insert_with(|| distinguish(&g, t, 0)).clone() {
                let mut ops: Vec<Op> = g.path_to(s).iter().map(|a| act_ops(&sys.alphabet[*a])).collect();
                ops.push(act_ops(&sys.alphabet[ai]));
                let mut x = t;
                let mut y = 0;
                for a in &dseq[..dseq.len() - 1] {
                    x = g.succ[x][*a] as usize;
                    y = g.succ[y][*a] as usize;
                }
                let la = dseq[dseq.len() - 1];
                let got = g.outs[x][la].clone();
                let want = g.outs[y][la].clone();
                ops.extend(dseq.iter().map(|a| act_ops(&sys.alphabet[*a])));
                ctx.violation(
                    &format!("ps2/leak/after-{}-from-{}bits:{:0w$b}", if ai == 2 { "clear" } else { "frame" }, g.states[s].2, g.states[s].1, w = g.states[s].2 as usize),
                    &format!(
                        "after {} (from a partial frame of {} bits) the decoder is not back in its initial condition: the following {} operations end in {} where a fresh decoder gives {}",
                        if ai == 2 { "clear()" } else { "the 11th bit of a frame" },
                        g.states[s].2,
                        dseq.len(),
                        got,
                        want
                    ),
                    Replay::one("ps2", ops, &format!("as a fresh decoder: {}", want), Some(got)),
                );
            }
        }
    }
    let shadows: std::collections::BTreeSet<(u16, u8)> = g.states.iter().map(|s| (s.1, s.2)).collect();
    if g.capped {
        ctx.cap_hit("frame bfs", 1_200_000);
    } else {
        ctx.expect(shadows.len() == 2047, &format!("all 2047 partial-frame prefixes visited on the reference side (saw {})", shadows.len()));
    }
    ctx.states += g.states.len() as u64;
    ctx.transitions += g.edges;
    ctx.traces_validated += g.edges;
    ctx.evaluations += g.edges;
    ctx.part(
        "bfs:Ps2Decoder x shadow frame",
        json!({"engine": "A (own BFS + stateright cross-check)", "product_states": g.states.len(), "transitions": g.edges, "max_depth": g.max_depth,
               "stateright_unique_states": sr.unique_states, "reference_prefixes_visited": shadows.len(), "reset_edges": reset_edges,
               "reset_edges_ending_in_new_by_identity": by_identity, "violating_edges": g.bads.len()}),
    );

    // (B) hook-free: all bit streams of 2 (quick) / 3 (thorough) frames, outputs only
    let frames = if ctx.thorough() { 3 } else { 2 };
    let total_bits = frames * 11;
    let results = bit_tree(total_bits, false);
    let mut total = 0u64;
    let mut slow = 0;
    for ((n, bads), was_slow) in results {
        total += n;
        slow += was_slow as u32;
        for (path, want, got) in bads {
            let k = path.len();
            let fr = (k - 1) / 11;
            let inframe: Vec<bool> = path[fr * 11..].to_vec();
            let prev: String = path[..fr * 11].iter().map(|b| if *b { '1' } else { '0' }).collect();
            let cur: String = inframe.iter().map(|b| if *b { '1' } else { '0' }).collect();
            ctx.violation(
                &format!("ps2/stream/after:{}/frame:{}", if prev.is_empty() { "-" } else { &prev }, cur),
                &format!("bit stream (in arrival order) {} then {}: the last bit must give {} but gives {}", if prev.is_empty() { "(nothing)" } else { &prev }, cur, want, got),
                Replay::one("ps2", path.iter().map(|b| Op::Bit(*b)).collect(), &want, Some(got)),
            );
        }
    }
    ctx.evaluations += total;
    ctx.traces_validated += total;
    ctx.part("tree:bit-streams", json!({"engine": "B stream tree (hook-free)", "frames_per_stream": frames, "bits_per_stream": total_bits, "bit_positions_checked": total, "streams": (1u64 << total_bits), "chunks_rerun_with_panic_guards": slow}));

    // (C) hook-free: clear() from every partial prefix, then every one of the 2048 frames
    report_clear_sweep(ctx);
    ps2_default_check(ctx);
    report_frame_chains(ctx, "ps2/c06");

    // (D) pumped frames: each of the 2048 frames 300 times on one decoder, without and with partial-frame+clear between
    for with_clear in [false, true] {
        let (n, bads) = pump_frames(300, with_clear);
        let nb = bads.len();
        for (w, rep, bit, want, got) in bads.into_iter().take(12) {
            let ops = pump_frame_ops(w, rep, bit, with_clear);
            ctx.violation(
                &format!("ps2/pumped{}/frame:0x{:03X}", if with_clear { "-with-clear" } else { "" }, w),
                &format!("frame 0x{:03X} shifted in repeatedly{}: in repetition {} bit {} must give {} but gives {}", w, if with_clear { " (a partial copy and clear() before each)" } else { "" }, rep + 1, bit + 1, want, got),
                Replay::one("ps2", ops, &want, Some(got)),
            );
        }
        ctx.evaluations += n;
        ctx.traces_validated += n;
        ctx.part(if with_clear { "pump:frames with partial frame + clear between" } else { "pump:frames" }, json!({"engine": "B pumped streams", "frames": 2048, "repetitions": 300, "bit_positions_checked": n, "violations_recorded": nb}));
    }
    {
        let seconds = pair_seconds(ctx.thorough());
        let reps = 6;
        let (n, bads) = pump_frame_pairs(reps, &seconds);
        let nb = bads.len();
        for (w1, w2, rep, upto, want, got) in bads.into_iter().take(12) {
            ctx.violation(
                &format!("ps2/pumped-pair/0x{:03X}-0x{:03X}", w1, w2),
                &format!("frames 0x{:03X} and 0x{:03X} shifted in alternately: in repetition {} bit {} of the pair must give {} but gives {}", w1, w2, rep + 1, upto + 1, want, got),
                Replay::one("ps2", pump_pair_ops(w1, w2, rep, upto), &want, Some(got)),
            );
        }
        ctx.evaluations += n;
        ctx.traces_validated += n;
        ctx.part("pump:frame pairs (w1 w2)^6", json!({"engine": "B pumped streams", "first_frames": 2048, "second_frames": seconds.len(), "repetitions": reps, "bit_positions_checked": n, "violations_recorded": nb}));
    }
    ctx.sample_run("ps2", &["bit:0", "bit:1", "bit:0", "bit:0", "bit:0", "bit:0", "bit:0", "bit:0", "bit:0", "bit:0", "bit:1", "bit:1", "bit:0", "bit:1", "clear", "bit:0", "bit:1", "bit:0", "bit:0", "bit:0", "bit:0", "bit:0", "bit:0", "bit:0", "bit:0", "bit:1"]);
    ctx.sample(json!({"bits": "0 10000000 0 1", "reference": "10 x Ok(None), then Ok(Some(0x01))"}));
    ctx.sample(json!({"history": "corrupted frame 0x403 (bad start) then valid frame 0x402", "reference": "Err(BadStartBit) at bit 11, Ok(Some(0x01)) at bit 22"}));
    ctx.sample(json!({"history": "5 bits 10110, clear(), frame 0x402", "reference": "Ok(Some(0x01)) at the 11th bit after clear"}));
    (
        2047 * 2 + 2047,
        "closed BFS of the real Ps2Decoder x shadow frame over {bit 0, bit 1, clear} (every partial prefix); every bit stream of 2 (quick) / 3 (thorough) frames; clear() from every partial prefix followed by every frame; non-trivial cases counted = the 2047 prefixes x 2 bit values + 2047 clears".into(),
    )
}

#[allow(dead_code)]
pub fn unused(_: &[usize]) -> usize {
    N_LAYOUTS
}
