//! Hook neutrality.  Every check of this harness runs against pc-keyboard built WITH the `verif-hooks` feature (the derives
//! that give decoder states an identity). Users get the crate WITHOUT it.  `/verif/probe_neutral` is a program over the
//! public API common to both builds; `vcheck` builds it twice and this module compares what the two builds print for the
//! sections that concern the property being checked: exhaustive output tables, digested group by group. Any difference
//! means the hooks are not behaviour-neutral - the verdict about the hooks-on build would say nothing about the crate as
//! shipped - and is reported as a violation of the property whose component differs, with the first differing item.

use crate::replay::Replay;
use crate::report::Ctx;
use serde_json::json;
use std::process::Command;

pub fn sections_for(prop: &str) -> &'static [&'static str] {
    match prop {
        "C01" => &["set2", "kb2"],
        "C02" => &["set1", "kb1"],
        "C07" | "C19" => &["set1", "set2"],
        "C13" => &["set1", "set2", "kb1", "kb2"],
        "C05" | "C06" => &["ps2"],
        "C04" | "C14" => &["ed", "kb2"],
        "C03" | "C09" | "C10" | "C11" | "C12" | "C15" | "C16" | "C17" => &["pred", "layout", "ed"],
        "C18" => &["ps2", "kb1", "kb2"],
        "C08" => &["pred", "layout", "set1", "set2", "ps2", "ed", "kb1", "kb2"],
        _ => &[],
    }
}

fn bins() -> Option<(String, String)> {
    match (std::env::var("VERIF_NEUTRAL_OFF"), std::env::var("VERIF_NEUTRAL_ON")) {
        (Ok(a), Ok(b)) if !a.is_empty() && !b.is_empty() => Some((a, b)),
        _ => None,
    }
}

fn run(bin: &str, args: &[&str]) -> Result<String, String> {
    let out = Command::new(bin).args(args).output().map_err(|e| format!("cannot run {}: {}", bin, e))?;
    if !out.status.success() {
        return Err(format!("{} {:?} ended with {}", bin, args, out.status));
    }
    Ok(String::from_utf8_lossy(&out.stdout).into_owned())
}

/// first differing item of one group: "item: default build <off> / with hooks <on>"
pub fn first_difference(section: &str, group: &str) -> String {
    let Some((off, on)) = bins() else { return "(neutrality probe not available)".into() };
    let (a, b) = (run(&off, &["expand", section, group]), run(&on, &["expand", section, group]));
    match (a, b) {
        (Ok(a), Ok(b)) => {
            for (x, y) in a.lines().zip(b.lines()) {
                if x != y {
                    let (ix, ox) = x.split_once('\t').unwrap_or((x, ""));
                    let (_, oy) = y.split_once('\t').unwrap_or((y, ""));
                    return format!("{}: default build {} / with hooks {}", ix, ox, oy);
                }
            }
            if a.lines().count() != b.lines().count() {
                return "the two builds list different items".into();
            }
            "no difference".into()
        }
        (Err(e), _) | (_, Err(e)) => format!("(probe failed: {})", e),
    }
}

pub fn check(ctx: &mut Ctx, prop: &str) {
    let sections = sections_for(prop);
    if sections.is_empty() {
        return;
    }
    let Some((off, on)) = bins() else {
        ctx.note("hook-neutrality probe not run (VERIF_NEUTRAL_OFF / VERIF_NEUTRAL_ON not set: the harness was started without vcheck)");
        return;
    };
    let mut args = vec!["list"];
    args.extend(sections.iter().copied());
    let (ra, rb) = std::thread::scope(|s| {
        let ha = s.spawn(|| run(&off, &args));
        let hb = s.spawn(|| run(&on, &args));
        (ha.join().unwrap_or_else(|_| Err("thread".into())), hb.join().unwrap_or_else(|_| Err("thread".into())))
    });
    let (a, b) = match (ra, rb) {
        (Ok(a), Ok(b)) => (a, b),
        (Err(e), _) | (_, Err(e)) => {
            ctx.machinery(&format!("hook-neutrality probe failed: {}", e));
            return;
        }
    };
    let la: Vec<&str> = a.lines().collect();
    let lb: Vec<&str> = b.lines().collect();
    if la.len() != lb.len() || la.is_empty() {
        ctx.machinery(&format!("hook-neutrality probe: the two builds list {} and {} groups", la.len(), lb.len()));
        return;
    }
    let mut differing = 0u64;
    for (x, y) in la.iter().zip(lb.iter()) {
        if x == y {
            continue;
        }
        differing += 1;
        if differing > 3 {
            continue;
        }
        let px: Vec<&str> = x.split('\t').collect();
        let (section, group) = (px.first().copied().unwrap_or("?"), px.get(1).copied().unwrap_or("?"));
        let diff = first_difference(section, group);
        ctx.violation(
            &format!("hooks-neutrality/{}/{}", section, group),
            &format!(
                "the crate built with the verif-hooks feature (what this harness explores) and the default build (what users get) behave differently: section {} group {}: {}. The hooks must be behaviour-neutral; as they are not, nothing established on the hooks-on build transfers to the shipped crate for this component",
                section, group, diff
            ),
            Replay::one(&format!("neutral:{}:{}", section, group), vec![], "the same output in both builds", Some(diff)),
        );
    }
    ctx.evaluations += la.len() as u64;
    ctx.part(
        "hook-neutrality: default build vs verif-hooks build of the same public-API probe",
        json!({"engine": "B exhaustive output tables, digested per group, two builds compared", "sections": sections, "groups_compared": la.len(), "groups_differing": differing}),
    );
}
