//! C18: the real `Keyboard` against a reference composite of three *real* stage objects wired
//! as the statement says; per-stage state compared through hook H4.
//!  (a) relation sweep over the product state space (deviation bound 1 = quick, 2 = full product)
//!  (b) closed BFS of (real Keyboard x composite) over a reduced alphabet (catches hidden
//!      cross-stage state that only a sequence of operations reveals)

use crate::common::*;
use crate::explore::*;
use crate::props::events::mods_paths;
use crate::props::frame::encode;
use crate::replay::{fmt_dk, fmt_ev, Op, Replay};
use crate::report::Ctx;
use pc_keyboard::{
    DecodedKey, Error, EventDecoder, HandleControl, KeyCode, KeyEvent, KeyState, Keyboard, Ps2Decoder, ScancodeSet, ScancodeSet1,
    ScancodeSet2,
};
use serde_json::json;
use std::fmt::Debug;
use std::panic::{catch_unwind, AssertUnwindSafe};
use std::sync::Arc;

pub trait SetLike: ScancodeSet + Clone + PartialEq + Debug + Send + Sync + 'static {
    const NAME: &'static str;
    fn fresh() -> Self;
    fn prefixes() -> Vec<Vec<u8>>;
}
impl SetLike for ScancodeSet2 {
    const NAME: &'static str = "set2";
    fn fresh() -> Self {
        ScancodeSet2::new()
    }
    fn prefixes() -> Vec<Vec<u8>> {
        vec![vec![], vec![0xE0], vec![0xE1], vec![0xF0], vec![0xE0, 0xF0], vec![0xE1, 0xF0]]
    }
}
impl SetLike for ScancodeSet1 {
    const NAME: &'static str = "set1";
    fn fresh() -> Self {
        ScancodeSet1::new()
    }
    fn prefixes() -> Vec<Vec<u8>> {
        vec![vec![], vec![0xE0], vec![0xE1]]
    }
}

#[derive(Clone, Debug, PartialEq)]
pub struct Composite<S: SetLike> {
    pub ps2: Ps2Decoder,
    pub sc: S,
    pub ev: EventDecoder<Echo>,
}

#[derive(Clone, Debug, PartialEq)]
pub enum KOp {
    Bit(bool),
    Word(u16),
    Byte(u8),
    Key(KeyCode, KeyState),
    Clear,
    Ctrl(HandleControl),
}
impl KOp {
    pub fn op(&self) -> Op {
        match self {
            KOp::Bit(b) => Op::Bit(*b),
            KOp::Word(w) => Op::Word(*w),
            KOp::Byte(b) => Op::Byte(*b),
            KOp::Key(k, s) => Op::Key(*k, *s),
            KOp::Clear => Op::Clear,
            KOp::Ctrl(m) => Op::Ctrl(*m),
        }
    }
    /// class index: 0 bit, 1 word, 2 byte, 3 key, 4 clear, 5 ctrl
    pub fn class(&self) -> usize {
        match self {
            KOp::Bit(_) => 0,
            KOp::Word(_) => 1,
            KOp::Byte(_) => 2,
            KOp::Key(..) => 3,
            KOp::Clear => 4,
            KOp::Ctrl(_) => 5,
        }
    }
}
pub const CLASS_NAMES: [&str; 6] = ["add_bit", "add_word", "add_byte", "process_keyevent", "clear", "set_ctrl_handling"];

#[derive(Clone, Debug, PartialEq)]
pub enum KRes {
    Ev(Result<Option<KeyEvent>, Error>),
    Dk(Option<DecodedKey>),
    Unit,
    Panic,
}
impl KRes {
    pub fn text(&self) -> String {
        match self {
            KRes::Ev(r) => fmt_ev(r),
            KRes::Dk(d) => fmt_dk(d),
            KRes::Unit => "()".into(),
            KRes::Panic => "PANIC".into(),
        }
    }
}

#[inline]
pub fn apply_real<S: SetLike>(k: &mut Keyboard<Echo, S>, op: &KOp) -> KRes {
    match op {
        KOp::Bit(b) => KRes::Ev(k.add_bit(*b)),
        KOp::Word(w) => KRes::Ev(k.add_word(*w)),
        KOp::Byte(b) => KRes::Ev(k.add_byte(*b)),
        KOp::Key(c, s) => KRes::Dk(k.process_keyevent(KeyEvent::new(*c, *s))),
        KOp::Clear => {
            k.clear();
            KRes::Unit
        }
        KOp::Ctrl(m) => {
            k.set_ctrl_handling(*m);
            KRes::Unit
        }
    }
}

/// The reference wiring: a transcription of the statement.
#[inline]
pub fn apply_ref<S: SetLike>(c: &mut Composite<S>, op: &KOp) -> KRes {
    match op {
        // bits go through the frame check and only accepted bytes reach the scancode decoder
        KOp::Bit(b) => KRes::Ev(match c.ps2.add_bit(*b) {
            Err(e) => Err(e),
            Ok(None) => Ok(None),
            Ok(Some(byte)) => c.sc.advance_state(byte),
        }),
        // words likewise
        // (the whole-word check is stateless: it is done on a fresh frame decoder so that, whatever the real
        // add_word does, the reference's bit-framing state is left alone)
        KOp::Word(w) => KRes::Ev(match Ps2Decoder::new().add_word(*w) {
            Err(e) => Err(e),
            Ok(byte) => c.sc.advance_state(byte),
        }),
        // bytes go straight to the scancode decoder
        KOp::Byte(b) => KRes::Ev(c.sc.advance_state(*b)),
        // key events go to the event decoder
        KOp::Key(k, s) => KRes::Dk(c.ev.process_keyevent(KeyEvent::new(*k, *s))),
        // clear() resets only the bit framing
        KOp::Clear => {
            c.ps2.clear();
            KRes::Unit
        }
        KOp::Ctrl(m) => {
            c.ev.set_ctrl_handling(*m);
            KRes::Unit
        }
    }
}

fn guarded<T, F: FnOnce() -> KRes>(f: F, _t: &T) -> KRes {
    catch_unwind(AssertUnwindSafe(f)).unwrap_or(KRes::Panic)
}

pub fn full_ops(words: u32) -> Vec<KOp> {
    let mut v = vec![KOp::Bit(false), KOp::Bit(true), KOp::Clear];
    for w in 0..words {
        v.push(KOp::Word(w as u16));
    }
    for b in 0..=255u8 {
        v.push(KOp::Byte(b));
    }
    for k in ALL_KEYS {
        for s in KEY_STATES {
            v.push(KOp::Key(k, s));
        }
    }
    v.push(KOp::Ctrl(HandleControl::MapLettersToUnicode));
    v.push(KOp::Ctrl(HandleControl::Ignore));
    v
}

/// which stages an operation class does NOT feed: (frame, scancode, event)
fn others(class: usize) -> (bool, bool, bool) {
    match class {
        0 => (false, false, true), // add_bit feeds frame + scancode
        1 => (true, false, true),  // add_word feeds scancode (frame check is stateless)
        2 => (true, false, true),
        3 => (true, true, false),
        4 => (false, true, true),
        _ => (true, true, false),
    }
}

pub struct SweepBad {
    pub ev_idx: usize,
    pub sc_idx: usize,
    pub fr_len: u8,
    pub fr_bits: u16,
    pub op: KOp,
    pub what: String,
    pub expected: String,
    pub observed: String,
}

pub struct SweepStats {
    pub transitions: u64,
    pub per_class: [u64; 6],
    pub states: u64,
    pub bads: Vec<SweepBad>,
    pub nbad: u64,
    pub panics: u64,
    /// transitions after which only state outside the three stages differed (hidden fields)
    pub hidden_diffs: u64,
    /// of those, how many were decided by a behavioural probe (the rest exceeded the per-chunk probe budget)
    pub hidden_probed: u64,
}

/// One full-alphabet step from both objects: the first operation on which their results or stage states
/// differ (None = indistinguishable in one step).
fn probe_diff<S: SetLike>(a: &Keyboard<Echo, S>, b: &Keyboard<Echo, S>, ops: &[KOp]) -> Option<String> {
    for op in ops {
        let mut x = a.clone();
        let mut y = b.clone();
        let rx = guarded(|| apply_real(&mut x, op), &());
        let ry = guarded(|| apply_real(&mut y, op), &());
        if rx != ry {
            return Some(format!("{} then gives {} instead of {}", op.op().text(), rx.text(), ry.text()));
        }
        let (p1, s1, e1) = x.verif_stages();
        let (p2, s2, e2) = y.verif_stages();
        if p1 != p2 || s1 != s2 || e1 != e2 {
            return Some(format!("{} then leaves different stage states", op.op().text()));
        }
    }
    None
}

/// `oracle_c18` false = C08 mode: only "returned normally" is checked.
pub fn sweep<S: SetLike>(bound: usize, ops: &[KOp], oracle_c18: bool) -> SweepStats {
    let paths = mods_paths();
    let prefixes = S::prefixes();
    let by_class: Vec<Vec<&KOp>> = (0..6).map(|c| ops.iter().filter(|o| o.class() == c).collect()).collect();
    let chunk = |evi: usize, guard_all: bool| {
        let m = (evi / 2) as u16;
        let mode = MODES[evi % 2];
        let mut st = SweepStats { transitions: 0, per_class: [0; 6], states: 0, bads: vec![], nbad: 0, panics: 0, hidden_diffs: 0, hidden_probed: 0 };
        let mut kb_ev = Keyboard::new(S::fresh(), Echo(0), mode);
        let mut cp_ev = Composite { ps2: Ps2Decoder::new(), sc: S::fresh(), ev: EventDecoder::new(Echo(0), mode) };
        let built = catch_unwind(AssertUnwindSafe(|| {
            for (k, s) in &paths[m as usize] {
                let _ = kb_ev.process_keyevent(KeyEvent::new(*k, *s));
                let _ = cp_ev.ev.process_keyevent(KeyEvent::new(*k, *s));
            }
        }));
        if built.is_err() {
            // the canonical path to this event-decoder state panics: C08/C04 report that; nothing to sweep here
            return st;
        }
        let ev_init = m == M_INIT && evi % 2 == 0;
        for (sci, pre) in prefixes.iter().enumerate() {
            let mut kb_sc = kb_ev.clone();
            let mut cp_sc = cp_ev.clone();
            let built = catch_unwind(AssertUnwindSafe(|| {
                for b in pre {
                    let _ = kb_sc.add_byte(*b);
                    let _ = cp_sc.sc.advance_state(*b);
                }
            }));
            if built.is_err() {
                continue;
            }
            let sc_init = sci == 0;
            // frame prefixes, depth-first with prefix sharing
            let mut stack: Vec<(Keyboard<Echo, S>, Composite<S>, u8, u16)> = vec![(kb_sc, cp_sc, 0, 0)];
            while let Some((kb, cp, len, bits)) = stack.pop() {
                let fr_init = len == 0;
                st.states += 1;
                for class in 0..6 {
                    let (of, os, oe) = others(class);
                    let devs = (of && !fr_init) as usize + (os && !sc_init) as usize + (oe && !ev_init) as usize;
                    if devs > bound {
                        continue;
                    }
                    for op in &by_class[class] {
                        let mut k2 = kb.clone();
                        let mut c2 = cp.clone();
                        let (r1, r2) = if oracle_c18 && guard_all {
                            (guarded(|| apply_real(&mut k2, op), &()), guarded(|| apply_ref(&mut c2, op), &()))
                        } else if oracle_c18 {
                            (apply_real(&mut k2, op), apply_ref(&mut c2, op))
                        } else {
                            (guarded(|| apply_real(&mut k2, op), &()), KRes::Unit)
                        };
                        st.transitions += 1;
                        st.per_class[class] += 1;
                        let mut what = None;
                        if oracle_c18 {
                            if r1 != r2 {
                                what = Some(("result".to_string(), r2.text(), r1.text()));
                            } else if r1 == KRes::Panic {
                                // both the Keyboard and the stage it delegates to panic alike: C08's finding, not a wiring fault
                            } else {
                                let (p, s, e) = k2.verif_stages();
                                if *p != c2.ps2 {
                                    what = Some(("frame stage state".to_string(), format!("{:?}", c2.ps2), format!("{:?}", p)));
                                } else if *s != c2.sc {
                                    what = Some(("scancode stage state".to_string(), format!("{:?}", c2.sc), format!("{:?}", s)));
                                } else if *e != c2.ev {
                                    what = Some(("event stage state".to_string(), format!("{:?}", c2.ev), format!("{:?}", e)));
                                } else if c2 == cp && k2 != kb {
                                    // The reference composite is untouched by this operation, yet the real object changed
                                    // somewhere outside its three stages (a hidden field). That alone is not a violation (it
                                    // may be a statistic); it is one if the change is observable: decide by a behavioural probe.
                                    st.hidden_diffs += 1;
                                    if st.hidden_probed < 24 {
                                        st.hidden_probed += 1;
                                        if let Some(d) = probe_diff(&k2, &kb, ops) {
                                            what = Some(("later behaviour (the operation must be a no-op here)".to_string(), "no observable effect".to_string(), d));
                                        }
                                    }
                                }
                            }
                        } else if r1 == KRes::Panic {
                            st.panics += 1;
                            what = Some(("panic".to_string(), "returns normally".to_string(), "PANIC".to_string()));
                        }
                        if let Some((w, exp, obs)) = what {
                            st.nbad += 1;
                            if st.bads.len() < 6 {
                                st.bads.push(SweepBad { ev_idx: evi, sc_idx: sci, fr_len: len, fr_bits: bits, op: (*op).clone(), what: w, expected: exp, observed: obs });
                            }
                        }
                    }
                }
                if len < 10 {
                    // add_bit (others = {ev}) is admissible below here iff bound >= 1 or the event stage is initial
                    let admissible = bound >= 1 || ev_init;
                    if admissible {
                        for b in [true, false] {
                            let mut k2 = kb.clone();
                            let mut c2 = cp.clone();
                            let ok = catch_unwind(AssertUnwindSafe(|| {
                                let _ = k2.add_bit(b);
                                let _ = c2.ps2.add_bit(b);
                            }))
                            .is_ok();
                            if ok {
                                stack.push((k2, c2, len + 1, bits | ((b as u16) << len)));
                            }
                        }
                    }
                }
            }
        }
        st
    };
    let results = par_chunks(1024, |evi| {
        if !oracle_c18 {
            return chunk(evi, true);
        }
        // fast path without per-call guards; if anything panics redo this chunk with every call guarded
        match catch_unwind(AssertUnwindSafe(|| chunk(evi, false))) {
            Ok(st) => st,
            Err(_) => chunk(evi, true),
        }
    });
    let mut tot = SweepStats { transitions: 0, per_class: [0; 6], states: 0, bads: vec![], nbad: 0, panics: 0, hidden_diffs: 0, hidden_probed: 0 };
    for r in results {
        tot.transitions += r.transitions;
        tot.states += r.states;
        tot.nbad += r.nbad;
        tot.panics += r.panics;
        tot.hidden_diffs += r.hidden_diffs;
        tot.hidden_probed += r.hidden_probed;
        for i in 0..6 {
            tot.per_class[i] += r.per_class[i];
        }
        if tot.bads.len() < 200 {
            tot.bads.extend(r.bads);
        }
    }
    tot
}

pub fn state_ops<S: SetLike>(b: &SweepBad) -> (String, Vec<Op>, String) {
    let paths = mods_paths();
    let m = (b.ev_idx / 2) as u16;
    let mode = MODES[b.ev_idx % 2];
    let mut ops: Vec<Op> = paths[m as usize].iter().map(|(k, s)| Op::Key(*k, *s)).collect();
    let pre = &S::prefixes()[b.sc_idx];
    ops.extend(pre.iter().map(|x| Op::Byte(*x)));
    for i in 0..b.fr_len {
        ops.push(Op::Bit((b.fr_bits >> i) & 1 != 0));
    }
    let desc = format!(
        "modifiers [{}] mode {}, scancode prefix {:02X?}, {} frame bits {:0w$b}",
        mods_text(m),
        mode_name(mode),
        pre,
        b.fr_len,
        b.fr_bits,
        w = b.fr_len as usize
    );
    (format!("kb:echo-0:{}:{}", S::NAME, mode_name(mode)), ops, desc)
}

fn report_sweep<S: SetLike>(ctx: &mut Ctx, st: &SweepStats, label: &str, bound: usize) {
    for b in &st.bads {
        let (comp, mut ops, desc) = state_ops::<S>(b);
        ops.push(b.op.op());
        // show the state afterwards through behaviour: probe with the modifier getter
        ops.push(Op::Mods);
        let t = crate::replay::run_part(&comp, &ops);
        let obs = t.last().cloned();
        ctx.violation(
            &format!("kb-{}/{}/{}/ev{}-sc{}-fr{}:{}", S::NAME, CLASS_NAMES[b.op.class()], b.op.op().text(), b.ev_idx, b.sc_idx, b.fr_len, b.fr_bits),
            &format!(
                "Keyboard<{}> in state ({}): {} differs from the three stages wired in sequence in its {}: expected {} but found {}",
                S::NAME, desc, b.op.op().text(), b.what, b.expected, b.observed
            ),
            Replay::one(&comp, ops, &format!("{}: {}", b.what, b.expected), obs),
        );
    }
    ctx.transitions += st.transitions;
    ctx.states += st.states;
    ctx.traces_validated += st.transitions;
    ctx.evaluations += st.transitions;
    let pc: serde_json::Map<String, serde_json::Value> = (0..6).map(|i| (CLASS_NAMES[i].to_string(), json!(st.per_class[i]))).collect();
    ctx.part(
        label,
        json!({"engine": "B relation sweep", "deviation_bound": bound, "product_states_visited": st.states, "transitions": st.transitions, "per_operation": pc, "violating_transitions": st.nbad,
               "no_op_transitions_changing_only_hidden_state": st.hidden_diffs, "of_which_probed_behaviourally": st.hidden_probed}),
    );
}

// ---- (b) closed BFS over a reduced alphabet ----------------------------------------------------

pub struct KbSys<S: SetLike> {
    pub alphabet: Vec<KOp>,
    pub _s: std::marker::PhantomData<S>,
}

impl<S: SetLike> Sys for KbSys<S> {
    type S = (Rid<Keyboard<Echo, S>>, Rid<Composite<S>>);
    type A = KOp;
    type O = ();
    fn init(&self) -> Self::S {
        (
            Rid(Keyboard::new(S::fresh(), Echo(0), HandleControl::MapLettersToUnicode)),
            Rid(Composite { ps2: Ps2Decoder::new(), sc: S::fresh(), ev: EventDecoder::new(Echo(0), HandleControl::MapLettersToUnicode) }),
        )
    }
    fn alphabet(&self) -> &[KOp] {
        &self.alphabet
    }
    fn step(&self, s: &Self::S, a: &KOp) -> Step<Self::S, ()> {
        let mut k = s.0 .0.clone();
        let mut c = s.1 .0.clone();
        let r1 = guarded(|| apply_real(&mut k, a), &());
        let r2 = guarded(|| apply_ref(&mut c, a), &());
        let mut bad = None;
        let mut what = None;
        if r1 != r2 {
            what = Some(("result", r2.text(), r1.text()));
        } else {
            let (p, sc, e) = k.verif_stages();
            if *p != c.ps2 {
                what = Some(("frame stage state", format!("{:?}", c.ps2), format!("{:?}", p)));
            } else if *sc != c.sc {
                what = Some(("scancode stage state", format!("{:?}", c.sc), format!("{:?}", sc)));
            } else if *e != c.ev {
                what = Some(("event stage state", format!("{:?}", c.ev), format!("{:?}", e)));
            }
        }
        if let Some((w, exp, obs)) = what {
            bad = Some(Bad {
                key: format!("kb-{}/bfs/{}/{}", S::NAME, CLASS_NAMES[a.class()], a.op().text()),
                text: format!("Keyboard<{}>: {} differs from the three stages wired in sequence in its {}: expected {} but found {}", S::NAME, a.op().text(), w, exp, obs),
                expected: exp,
                observed: r1.text(),
            });
        }
        Step { next: (Rid(k), Rid(c)), out: (), bad }
    }
}

pub fn reduced_alphabet(quick: bool) -> Vec<KOp> {
    let mut v = vec![KOp::Bit(false), KOp::Bit(true), KOp::Clear];
    // whole words: one per outcome class of the frame check and of the scancode stage
    v.push(KOp::Word(encode(0xE0)));
    v.push(KOp::Word(encode(0xF0)));
    v.push(KOp::Word(encode(0x12)));
    v.push(KOp::Word(encode(0xFF)));
    v.push(KOp::Word(encode(0x12) | 1)); // bad start
    v.push(KOp::Word(encode(0x12) & !(1 << 10))); // bad stop
    v.push(KOp::Word(encode(0x12) ^ (1 << 9))); // parity
    for b in [0xE0u8, 0xE1, 0xF0, 0x12, 0x1C, 0x00, 0xFF] {
        v.push(KOp::Byte(b));
    }
    v.push(KOp::Key(KeyCode::LShift, KeyState::Down));
    v.push(KOp::Key(KeyCode::LShift, KeyState::Up));
    v.push(KOp::Key(KeyCode::A, KeyState::Down));
    v.push(KOp::Ctrl(HandleControl::Ignore));
    v.push(KOp::Ctrl(HandleControl::MapLettersToUnicode));
    if !quick {
        v.push(KOp::Key(KeyCode::NumpadLock, KeyState::Down));
        v.push(KOp::Key(KeyCode::RControl2, KeyState::Down));
        v.push(KOp::Key(KeyCode::RControl2, KeyState::Up));
        v.push(KOp::Key(KeyCode::PowerOnTestOk, KeyState::SingleShot));
    }
    v
}

fn closure_bfs<S: SetLike>(ctx: &mut Ctx, quick: bool) {
    let sys = Arc::new(KbSys::<S> { alphabet: reduced_alphabet(quick), _s: std::marker::PhantomData });
    let cap = if quick { 400_000 } else { 1_500_000 };
    let g = bfs(&*sys, false, cap);
    if g.capped {
        ctx.cap_hit(&format!("closure bfs {}", S::NAME), cap);
    }
    // stateright cross-check only in the quick-sized instance (its per-state property evaluation doubles the work)
    let sr = if quick && !g.capped { Some(stateright_bfs(sys.clone(), cap)) } else { None };
    if let Some(sr) = &sr {
        if g.bads.is_empty() && sr.unique_states != g.states.len() {
            ctx.machinery(&format!("closure bfs {}: explorers disagree on state count ({} vs {})", S::NAME, g.states.len(), sr.unique_states));
        }
        if g.bads.is_empty() != sr.counterexample.is_none() {
            ctx.machinery(&format!("closure bfs {}: explorers disagree on the verdict", S::NAME));
        }
    }
    let comp = format!("kb:echo-0:{}:Map", S::NAME);
    for (si, ai, b) in &g.bads {
        let mut ops: Vec<Op> = g.path_to(*si).iter().map(|a| sys.alphabet[*a].op()).collect();
        ops.push(sys.alphabet[*ai].op());
        ctx.violation(&b.key, &b.text, Replay::one(&comp, ops, &b.expected, Some(b.observed.clone())));
    }
    ctx.states += g.states.len() as u64;
    ctx.transitions += g.edges;
    ctx.traces_validated += g.edges;
    ctx.evaluations += g.edges;
    ctx.part(
        &format!("bfs:Keyboard<Echo,{}> x composite (reduced alphabet)", S::NAME),
        json!({"engine": if quick { "A (own BFS + stateright cross-check)" } else { "A (own BFS)" }, "alphabet": sys.alphabet.len(), "product_states": g.states.len(), "transitions": g.edges,
               "max_depth": g.max_depth, "stateright_unique_states": sr.map(|s| s.unique_states), "violating_edges": g.bads.len()}),
    );
}

pub fn c18(ctx: &mut Ctx) -> (u64, String) {
    ctx.trust("the reference wiring apply_ref (harness/src/props/compose.rs): ~20 lines transcribing the statement over three real stage objects");
    ctx.assume("per-stage state of the real Keyboard is read through hook H4 and compared with derived PartialEq (hooks H2/H3)");
    let bound = if ctx.thorough() { 2 } else { 1 };
    let ops = full_ops(2048);
    let st2 = sweep::<ScancodeSet2>(bound, &ops, true);
    report_sweep::<ScancodeSet2>(ctx, &st2, "sweep:Keyboard<Echo,Set2> vs composite", bound);
    let st1 = sweep::<ScancodeSet1>(bound, &ops, true);
    report_sweep::<ScancodeSet1>(ctx, &st1, "sweep:Keyboard<Echo,Set1> vs composite", bound);
    if bound == 2 {
        ctx.expect(st2.states == 2047 * 6 * 1024, "Set 2 full product = 2047 x 6 x 1024 states");
        ctx.expect(st1.states == 2047 * 3 * 1024, "Set 1 full product = 2047 x 3 x 1024 states");
        ctx.expect(st2.transitions == st2.states * ops.len() as u64, "Set 2: transitions == states x |alphabet|");
    }
    closure_bfs::<ScancodeSet2>(ctx, !ctx.thorough());
    closure_bfs::<ScancodeSet1>(ctx, !ctx.thorough());
    ctx.set("deviation_bound_completed", json!(bound));
    ctx.set("alphabet_size", json!(ops.len()));
    ctx.sample_run("kb:echo-0:set2:Map", &["key:LShift:Down", "byte:E0", "bit:0", "bit:1", "bit:0", "bit:1", "word:0403", "mods", "clear", "byte:70", "mods"]);
    ctx.sample(json!({"state": "scancode prefix [E0], 4 frame bits 0101, modifiers lshift", "op": "add_word(0x403) (bad start bit)", "reference": "Err(BadStartBit); all three stages unchanged"}));
    ctx.sample(json!({"state": "7 frame bits, scancode prefix [F0]", "op": "clear()", "reference": "frame stage back to empty; prefix F0 and modifiers untouched"}));
    ctx.sample(json!({"state": "any", "op": "process_keyevent(LShift Down)", "reference": "event stage only"}));
    (
        st2.transitions + st1.transitions,
        format!("relation sweep: every product state (2047 frame prefixes x 6|3 scancode prefix states x 1024 event-decoder states) within deviation bound {} x every one of the {} operations applied to the real Keyboard and to the composite of three real stages, results and all three stage states compared; plus closed BFS of (Keyboard x composite) over a reduced alphabet; a case is one (state, operation) transition", bound, ops.len()),
    )
}
