//! C13: Set 1 and Set 2 decode consistently under the i8042 translation (R-8042).

use crate::common::*;
use crate::explore::*;
use crate::refs::scancodes::*;
use crate::replay::{fmt_dk, fmt_ev, Op, Replay};
use crate::report::Ctx;
use pc_keyboard::{Error, HandleControl, KeyEvent, KeyState, Keyboard, ScancodeSet, ScancodeSet1, ScancodeSet2};
use serde_json::json;
use std::panic::{catch_unwind, AssertUnwindSafe};
use std::sync::Arc;

type EvR = Result<Option<KeyEvent>, Error>;

fn run<S: ScancodeSet>(mut s: S, bytes: &[u8]) -> Result<EvR, String> {
    catch_unwind(AssertUnwindSafe(|| {
        let mut last = Ok(None);
        for b in bytes {
            last = s.advance_state(*b);
        }
        last
    }))
    .map_err(crate::replay::panic_text)
}
fn txt(r: &Result<EvR, String>) -> String {
    match r {
        Ok(r) => fmt_ev(r),
        Err(p) => p.clone(),
    }
}
fn hex(b: &[u8]) -> String {
    let v: Vec<String> = b.iter().map(|x| format!("{:02X}", x)).collect();
    format!("[{}]", v.join(" "))
}
fn bops(b: &[u8]) -> Vec<Op> {
    b.iter().map(|x| Op::Byte(*x)).collect()
}

/// (set2 bytes, set1 bytes, key) for every key press expressible in Set 2 whose code has a translation,
/// taken from the *real* Set 2 decoder (no reference table)
pub fn translatable_presses() -> Vec<(u8, u8)> {
    let mut v = vec![];
    for table in [PLAIN, E0, E1] {
        for c in (0x01..=0x7Fu8).chain([0x83u8, 0x84u8]) {
            v.push((table, c));
        }
    }
    v
}

pub fn c13(ctx: &mut Ctx) -> (u64, String) {
    ctx.trust("R-8042: the controller's Set 2 -> Set 1 translation table (harness/src/refs/scancodes.rs XLATE; IBM PS/2 Technical Reference, Brouwer 'Keyboard scancodes' section 10), prefixes E0/E1 kept, F0+code -> code|0x80");
    let mut keys_both = std::collections::BTreeSet::new();
    let mut forward = 0u64;
    let mut nontrivial = 0u64;
    // forward direction
    for (table, c) in translatable_presses() {
        for brk in [false, true] {
            let (s2, s1) = xlate_seq(table, brk, c).unwrap();
            let r2 = run(ScancodeSet2::new(), &s2);
            ctx.evaluations += 1;
            forward += 1;
            let want_state = if brk { KeyState::Up } else { KeyState::Down };
            let key = match &r2 {
                Ok(Ok(Some(e))) if e.state == want_state => e.code,
                _ => continue, // no key in the source set (or a status code): nothing imposed
            };
            let r1 = run(ScancodeSet1::new(), &s1);
            ctx.evaluations += 1;
            nontrivial += 1;
            keys_both.insert(format!("{:?}", key));
            let ok = matches!(&r1, Ok(Ok(Some(e))) if e.code == key && e.state == want_state);
            if !ok {
                ctx.violation(
                    &format!("xlate/fwd/{}/0x{:02X}/{}", CTX_NAMES[table as usize], c, if brk { "break" } else { "make" }),
                    &format!(
                        "Set 2 sequence {} decodes to {} but its i8042 translation {} decodes in Set 1 to {}",
                        hex(&s2), txt(&r2), hex(&s1), txt(&r1)
                    ),
                    Replay { parts: vec![("set2".into(), bops(&s2)), ("set1".into(), bops(&s1))], expected: format!("Set 1 gives {}", txt(&r2)), observed_last: Some(txt(&r1)) },
                );
            }
        }
    }
    // backward direction: every Set 1 key sequence has a Set 2 pre-image decoding to the same event
    let mut backward = 0u64;
    for table in [PLAIN, E0, E1] {
        let pre: Vec<u8> = match table {
            E0 => vec![0xE0],
            E1 => vec![0xE1],
            _ => vec![],
        };
        for c1 in 0x00..=0x7Fu8 {
            for brk in [false, true] {
                let mut s1 = pre.clone();
                let byte = if brk { c1 | 0x80 } else { c1 };
                if table == PLAIN && (byte == 0xE0 || byte == 0xE1) {
                    continue;
                }
                s1.push(byte);
                let r1 = run(ScancodeSet1::new(), &s1);
                ctx.evaluations += 1;
                backward += 1;
                let want_state = if brk { KeyState::Up } else { KeyState::Down };
                let key = match &r1 {
                    Ok(Ok(Some(e))) if e.state == want_state => e.code,
                    Ok(Ok(Some(e))) => {
                        ctx.violation(
                            &format!("xlate/bwd/{}/0x{:02X}/{}", CTX_NAMES[table as usize], c1, if brk { "break" } else { "make" }),
                            &format!("Set 1 sequence {} decodes to {:?} {:?}: bit 7 must select release", hex(&s1), e.code, e.state),
                            Replay::one("set1", bops(&s1), "bit 7 set <=> Up", Some(txt(&r1))),
                        );
                        continue;
                    }
                    _ => continue,
                };
                nontrivial += 1;
                let preimages: Vec<u8> = (0x01..=0x7Fu8).chain([0x83u8, 0x84u8]).filter(|c| xlate(*c) == Some(c1)).collect();
                let mut found = false;
                let mut tried = vec![];
                for c in &preimages {
                    let (s2, _) = xlate_seq(table, brk, *c).unwrap();
                    let r2 = run(ScancodeSet2::new(), &s2);
                    ctx.evaluations += 1;
                    if matches!(&r2, Ok(Ok(Some(e))) if e.code == key && e.state == want_state) {
                        found = true;
                    }
                    tried.push((s2, txt(&r2)));
                }
                if !found {
                    let mut parts = vec![("set1".to_string(), bops(&s1))];
                    for (s2, _) in &tried {
                        parts.push(("set2".to_string(), bops(s2)));
                    }
                    let last = tried.last().map(|t| t.1.clone()).unwrap_or(txt(&r1));
                    ctx.violation(
                        &format!("xlate/bwd/{}/0x{:02X}/{}", CTX_NAMES[table as usize], c1, if brk { "break" } else { "make" }),
                        &format!(
                            "Set 1 sequence {} decodes to {} but no Set 2 sequence that the i8042 translates into it decodes to the same event (pre-images tried: {})",
                            hex(&s1), txt(&r1),
                            if tried.is_empty() { "none exist".to_string() } else { tried.iter().map(|(s, r)| format!("{} -> {}", hex(s), r)).collect::<Vec<_>>().join("; ") }
                        ),
                        Replay { parts, expected: format!("some Set 2 pre-image gives {}", txt(&r1)), observed_last: Some(last) },
                    );
                }
            }
        }
    }
    crate::props::scan::other_constructors_check::<ScancodeSet2>(ctx, "constructors");
    crate::props::scan::other_constructors_check::<ScancodeSet1>(ctx, "constructors");
    ctx.part("table:forward+backward", json!({"forward_sequences": forward, "backward_sequences": backward, "keys_expressible_in_both_sets": keys_both.len()}));
    ctx.expect(keys_both.len() >= 100, "at least 100 keys are expressible in both sets (vacuity guard)");

    // end-to-end: pair of real Keyboards fed the Set 2 stream and its translation
    let layouts: Vec<usize> = if ctx.thorough() { (0..N_LAYOUTS).collect() } else { vec![L_US, L_DE] };
    let modes: Vec<HandleControl> = if ctx.thorough() { MODES.to_vec() } else { vec![HandleControl::MapLettersToUnicode] };
    for l in layouts {
        for mode in &modes {
            pair_bfs(ctx, l, *mode);
            pair_entry_points(ctx, l, *mode);
        }
    }
    ctx.sample_run("set2", &["byte:E0", "byte:F0", "byte:7C", "byte:13", "byte:83"]);
    ctx.sample_run("set1", &["byte:E0", "byte:B7", "byte:70", "byte:41"]);
    ctx.sample(json!({"set2": ["E0", "F0", "7C"], "set1": ["E0", "B7"], "reference": "both PrintScreen Up"}));
    ctx.sample(json!({"set2": ["13"], "set1": ["70"], "reference": "both Oem11 Down (JIS Katakana/Hiragana)"}));
    (
        nontrivial,
        "all 3 prefix tables x all 130 translatable Set 2 codes x {make, break} through the real Set 2 decoder and, translated by R-8042, through the real Set 1 decoder; conversely all Set 1 codes against all their Set 2 pre-images; closed BFS of a pair of real Keyboards (Set 2 stream / translated Set 1 stream) over press and release of every key; non-trivial = sequences that decode to a key in the source set".into(),
    )
}

// ---- end-to-end pair BFS -------------------------------------------------------------------------

pub struct PairSys {
    layout: usize,
    mode: HandleControl,
    /// (set2 bytes, set1 bytes, compare outputs?) - sequences that decode to a key in Set 2 are compared;
    /// the remaining translatable sequences ("noise": codes one set or the other does not define, e.g. the
    /// fake-shift E0 F0 59 -> E0 B6) are fed to both keyboards without comparing their own results, so that
    /// whatever they leave behind is observed by the key sequences that follow
    alphabet: Vec<PairAct>,
}

/// one action of the pair system: the Set 2 bytes, their i8042 translation, whether the two keyboards' results are
/// compared, and whether a line glitch (one stray bit, then the driver's timeout `clear()`) hits both keyboards just
/// before the last byte - i.e. while a prefix is pending
#[derive(Clone, Debug, PartialEq)]
pub struct PairAct {
    pub s2: Vec<u8>,
    pub s1: Vec<u8>,
    pub compare: bool,
    pub glitch: bool,
}

fn type_bytes<S: ScancodeSet>(k: &mut Keyboard<Wrap, S>, bytes: &[u8], glitch: bool) -> String {
    let mut out = vec![];
    for (i, b) in bytes.iter().enumerate() {
        if glitch && i + 1 == bytes.len() {
            let _ = k.add_bit(false);
            k.clear();
        }
        match k.add_byte(*b) {
            Ok(Some(ev)) => {
                let t = format!("{:?} {:?}", ev.code, ev.state);
                out.push(format!("{} -> {}", t, fmt_dk(&k.process_keyevent(ev))));
            }
            Ok(None) => {}
            Err(e) => out.push(format!("Err({:?})", e)),
        }
    }
    format!("{} mods=[{}]", out.join(", "), mods_text(bits_from_mods(k.get_modifiers())))
}

impl Sys for PairSys {
    type S = (Rid<Keyboard<Wrap, ScancodeSet2>>, Rid<Keyboard<Wrap, ScancodeSet1>>);
    type A = PairAct;
    type O = ();
    fn init(&self) -> Self::S {
        (
            Rid(Keyboard::new(ScancodeSet2::new(), Wrap(self.layout as u8), self.mode)),
            Rid(Keyboard::new(ScancodeSet1::new(), Wrap(self.layout as u8), self.mode)),
        )
    }
    fn alphabet(&self) -> &[PairAct] {
        &self.alphabet
    }
    fn step(&self, s: &Self::S, a: &PairAct) -> Step<Self::S, ()> {
        let mut k2 = s.0 .0.clone();
        let mut k1 = s.1 .0.clone();
        let o2 = catch_unwind(AssertUnwindSafe(|| type_bytes(&mut k2, &a.s2, a.glitch))).unwrap_or_else(|_| "PANIC".into());
        let o1 = catch_unwind(AssertUnwindSafe(|| type_bytes(&mut k1, &a.s1, a.glitch))).unwrap_or_else(|_| "PANIC".into());
        let bad = if a.compare && o1 != o2 {
            Some(Bad {
                key: format!("xlate/e2e/{}/{}/{}", LAYOUT_NAMES[self.layout], mode_name(self.mode), format!("{}{}", hex(&a.s2).replace(' ', ""), if a.glitch { "+glitch" } else { "" })),
                text: format!(
                    "layout {} mode {}: typing Set 2 bytes {}{} gives '{}' but the translated Set 1 bytes {} give '{}'",
                    LAYOUT_NAMES[self.layout], mode_name(self.mode), hex(&a.s2), if a.glitch { " (a stray bit and clear() before the last byte)" } else { "" }, o2, hex(&a.s1), o1
                ),
                expected: o2.clone(),
                observed: o1.clone(),
            })
        } else {
            None
        };
        Step { next: (Rid(k2), Rid(k1)), out: (), bad }
    }
}

/// The same comparison with the bytes arriving through the other two entry points of `Keyboard` (whole words, and bit by
/// bit after a line glitch + clear()): every ordered pair of key sequences on a fresh pair of keyboards; the outputs of
/// the second sequence (and the modifiers afterwards) must agree between the Set 2 keyboard and the Set 1 keyboard fed
/// the translation.
fn pair_entry_points(ctx: &mut Ctx, layout: usize, mode: HandleControl) {
    let mut seqs: Vec<(Vec<u8>, Vec<u8>)> = vec![];
    for (table, c) in translatable_presses() {
        for brk in [false, true] {
            let (s2, s1) = xlate_seq(table, brk, c).unwrap();
            if let Ok(Ok(Some(e))) = run(ScancodeSet2::new(), &s2) {
                if e.state != KeyState::SingleShot {
                    seqs.push((s2, s1));
                }
            }
        }
    }
    fn feed<S: ScancodeSet>(k: &mut Keyboard<Wrap, S>, bytes: &[u8], via: u8) -> String {
        let mut out = vec![];
        for b in bytes {
            let r = if via == 1 { k.add_word(crate::props::frame::encode(*b)) } else { crate::replay::type_bits(k, *b) };
            match r {
                Ok(Some(ev)) => {
                    let t = format!("{:?} {:?}", ev.code, ev.state);
                    out.push(format!("{} -> {}", t, fmt_dk(&k.process_keyevent(ev))));
                }
                Ok(None) => {}
                Err(e) => out.push(format!("Err({:?})", e)),
            }
        }
        format!("{} mods=[{}]", out.join(", "), mods_text(bits_from_mods(k.get_modifiers())))
    }
    let results = par_chunks(seqs.len(), |i| {
        let (a2, a1) = &seqs[i];
        let mut n = 0u64;
        let mut bads = vec![];
        for via in [1u8, 2u8] {
            let mut k2 = Keyboard::new(ScancodeSet2::new(), Wrap(layout as u8), mode);
            let mut k1 = Keyboard::new(ScancodeSet1::new(), Wrap(layout as u8), mode);
            let o2 = catch_unwind(AssertUnwindSafe(|| feed(&mut k2, a2, via))).unwrap_or_else(|_| "PANIC".into());
            let o1 = catch_unwind(AssertUnwindSafe(|| feed(&mut k1, a1, via))).unwrap_or_else(|_| "PANIC".into());
            n += 1;
            if o1 != o2 {
                if bads.len() < 2 {
                    bads.push((via, i, usize::MAX, o2, o1));
                }
                continue;
            }
            for (j, (b2, b1)) in seqs.iter().enumerate() {
                let mut x2 = k2.clone();
                let mut x1 = k1.clone();
                let o2 = catch_unwind(AssertUnwindSafe(|| feed(&mut x2, b2, via))).unwrap_or_else(|_| "PANIC".into());
                let o1 = catch_unwind(AssertUnwindSafe(|| feed(&mut x1, b1, via))).unwrap_or_else(|_| "PANIC".into());
                n += 1;
                if o1 != o2 && bads.len() < 2 {
                    bads.push((via, i, j, o2, o1));
                }
            }
        }
        (n, bads)
    });
    let mut n = 0;
    let mut nb = 0;
    for (c, bads) in results {
        n += c;
        for (via, i, j, o2, o1) in bads {
            nb += 1;
            let mk = |b: u8| if via == 1 { Op::TypeWord(b) } else { Op::TypeBits(b) };
            let mut p2: Vec<Op> = seqs[i].0.iter().map(|b| mk(*b)).collect();
            let mut p1: Vec<Op> = seqs[i].1.iter().map(|b| mk(*b)).collect();
            let mut what = hex(&seqs[i].0);
            let mut what1 = hex(&seqs[i].1);
            if j != usize::MAX {
                p2.extend(seqs[j].0.iter().map(|b| mk(*b)));
                p1.extend(seqs[j].1.iter().map(|b| mk(*b)));
                what = format!("{} then {}", what, hex(&seqs[j].0));
                what1 = format!("{} then {}", what1, hex(&seqs[j].1));
            }
            p2.push(Op::Mods);
            p1.push(Op::Mods);
            let c2 = format!("kb:wrap-{}:set2:{}", LAYOUT_NAMES[layout], mode_name(mode));
            let c1 = format!("kb:wrap-{}:set1:{}", LAYOUT_NAMES[layout], mode_name(mode));
            let how = if via == 1 { "as whole words through add_word" } else { "bit by bit through add_bit (after a glitch and clear())" };
            ctx.violation(
                &format!("xlate/e2e-{}/{}/{}/{}", if via == 1 { "words" } else { "bits" }, LAYOUT_NAMES[layout], mode_name(mode), what.replace(' ', "")),
                &format!("layout {} mode {}: the Set 2 bytes {} arriving {} give '{}' but the translated Set 1 bytes {} give '{}'", LAYOUT_NAMES[layout], mode_name(mode), what, how, o2, what1, o1),
                Replay { parts: vec![(c2, p2), (c1, p1)], expected: format!("both keyboards report: {}", o2), observed_last: None },
            );
        }
    }
    ctx.evaluations += n;
    ctx.traces_validated += n;
    ctx.part(
        &format!("pairs:every ordered pair of key sequences through add_word and through add_bit, Keyboard<{},Set2> / Keyboard<{},Set1> mode {}", LAYOUT_NAMES[layout], LAYOUT_NAMES[layout], mode_name(mode)),
        json!({"engine": "B sweep", "key_sequences": seqs.len(), "entry_points": 2, "sequence_pairs_compared": n, "violations_recorded": nb}),
    );
}

fn pair_bfs(ctx: &mut Ctx, layout: usize, mode: HandleControl) {
    // alphabet from the real Set 2 decoder: every translatable sequence that decodes to a key press or release
    let mut alphabet = vec![];
    for (table, c) in translatable_presses() {
        for brk in [false, true] {
            let (s2, s1) = xlate_seq(table, brk, c).unwrap();
            match run(ScancodeSet2::new(), &s2) {
                Ok(Ok(Some(e))) if e.state != KeyState::SingleShot => {
                    if s2.len() >= 2 {
                        alphabet.push(PairAct { s2: s2.clone(), s1: s1.clone(), compare: true, glitch: true });
                    }
                    alphabet.push(PairAct { s2, s1, compare: true, glitch: false })
                }
                Ok(Ok(Some(_))) => {}
                _ => {
                    // noise: only if the translated sequence is a complete sequence by the Set 1 grammar
                    // (a translated break byte equal to E0/E1 would be a prefix there)
                    let last = *s1.last().unwrap();
                    if !(table == PLAIN && (last == 0xE0 || last == 0xE1)) {
                        alphabet.push(PairAct { s2, s1, compare: false, glitch: false });
                    }
                }
            }
        }
    }
    let sys = Arc::new(PairSys { layout, mode, alphabet });
    let (g, sr, errs) = explore_both(sys.clone(), false, 50_000);
    for e in errs {
        ctx.machinery(&format!("pair bfs {}: {}", LAYOUT_NAMES[layout], e));
    }
    for (si, ai, b) in &g.bads {
        let mut o2: Vec<Op> = vec![];
        let mut o1: Vec<Op> = vec![];
        for a in g.path_to(*si).iter().chain(std::iter::once(ai)) {
            let act = &sys.alphabet[*a];
            for (bytes, ops) in [(&act.s2, &mut o2), (&act.s1, &mut o1)] {
                for (i, x) in bytes.iter().enumerate() {
                    if act.glitch && i + 1 == bytes.len() {
                        ops.push(Op::Bit(false));
                        ops.push(Op::Clear);
                    }
                    ops.push(Op::Type(*x));
                }
            }
        }
        o2.push(Op::Mods);
        o1.push(Op::Mods);
        let c2 = format!("kb:wrap-{}:set2:{}", LAYOUT_NAMES[layout], mode_name(mode));
        let c1 = format!("kb:wrap-{}:set1:{}", LAYOUT_NAMES[layout], mode_name(mode));
        ctx.violation(&b.key, &b.text, Replay { parts: vec![(c2, o2), (c1, o1)], expected: format!("both keyboards report: {}", b.expected), observed_last: None });
    }
    ctx.states += g.states.len() as u64;
    ctx.transitions += g.edges;
    ctx.traces_validated += g.edges;
    ctx.evaluations += g.edges;
    ctx.part(
        &format!("bfs:pair Keyboard<{},Set2> / Keyboard<{},Set1> mode {}", LAYOUT_NAMES[layout], LAYOUT_NAMES[layout], mode_name(mode)),
        json!({"engine": "A (own BFS + stateright cross-check)", "key_sequences": sys.alphabet.iter().filter(|a| a.compare && !a.glitch).count(), "key_sequences_with_glitch": sys.alphabet.iter().filter(|a| a.glitch).count(), "noise_sequences": sys.alphabet.iter().filter(|a| !a.compare).count(), "product_states": g.states.len(), "transitions": g.edges, "max_depth": g.max_depth,
               "stateright_unique_states": sr.unique_states, "violating_edges": g.bads.len()}),
    );
    if g.capped {
        ctx.cap_hit("pair bfs", 50_000);
    }
    if !g.capped {
        ctx.expect(g.states.len() >= 512, "pair BFS reaches all 512 modifier states");
    }
}
