pub mod scan;
pub mod frame;
pub mod events;
pub mod compose;
