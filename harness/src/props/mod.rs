pub mod scan;
pub mod frame;
pub mod events;
pub mod compose;
pub mod xlate;
pub mod safety;
pub mod dump;
pub mod layouts;
