pub mod scan;
