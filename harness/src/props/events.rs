//! C04 (modifier tracking) and C14 (one decoded key per press, via the current layout and mode):
//! one transition system over the real EventDecoder / Keyboard with the recording layout `Echo`,
//! in lock-step with R-MODS.

use crate::common::*;
use crate::explore::*;
use crate::replay::{fmt_dk, Op, Replay};
use crate::report::Ctx;
use pc_keyboard::layouts::AnyLayout;
use pc_keyboard::{DecodedKey, EventDecoder, HandleControl, KeyCode, KeyEvent, KeyState, Keyboard, ScancodeSet1, ScancodeSet2};
use serde_json::json;
use std::collections::BTreeSet;
use std::fmt::Debug;
use std::panic::{catch_unwind, AssertUnwindSafe};
use std::sync::Arc;

// ---- R-MODS ------------------------------------------------------------------------------------

/// the momentary modifier a key controls (R-MODS), from the property text
pub fn momentary_bit(k: KeyCode) -> Option<u16> {
    match k {
        KeyCode::LShift => Some(M_LSHIFT),
        KeyCode::RShift => Some(M_RSHIFT),
        KeyCode::LControl => Some(M_LCTRL),
        KeyCode::RControl => Some(M_RCTRL),
        KeyCode::LAlt => Some(M_LALT),
        KeyCode::RAltGr => Some(M_RALT),
        KeyCode::RControl2 => Some(M_RCTRL2),
        _ => None,
    }
}
pub fn is_modifier_key(k: KeyCode) -> bool {
    momentary_bit(k).is_some() || k == KeyCode::CapsLock || k == KeyCode::NumpadLock
}

/// R-MODS step form
pub fn rmods_step(m: u16, k: KeyCode, s: KeyState) -> u16 {
    if let Some(bit) = momentary_bit(k) {
        return match s {
            KeyState::Down => m | bit,
            KeyState::Up => m & !bit,
            KeyState::SingleShot => m,
        };
    }
    if s == KeyState::Down {
        if k == KeyCode::CapsLock {
            return m ^ M_CAPS;
        }
        if k == KeyCode::NumpadLock && m & M_RCTRL2 == 0 {
            return m ^ M_NUM;
        }
    }
    m
}

/// R-MODS history form: every flag recomputed from the whole event list (the statement itself)
pub fn rmods_history(h: &[(KeyCode, KeyState)]) -> u16 {
    let mut m = 0u16;
    for (key, bit) in [
        (KeyCode::LShift, M_LSHIFT),
        (KeyCode::RShift, M_RSHIFT),
        (KeyCode::LControl, M_LCTRL),
        (KeyCode::RControl, M_RCTRL),
        (KeyCode::LAlt, M_LALT),
        (KeyCode::RAltGr, M_RALT),
        (KeyCode::RControl2, M_RCTRL2),
    ] {
        // held iff the most recent press/release event of that key was a press
        if let Some((_, s)) = h.iter().rev().find(|(k, s)| *k == key && *s != KeyState::SingleShot) {
            if *s == KeyState::Down {
                m |= bit;
            }
        }
    }
    let caps = h.iter().filter(|(k, s)| *k == KeyCode::CapsLock && *s == KeyState::Down).count();
    if caps % 2 == 1 {
        m |= M_CAPS;
    }
    // NumLock starts on; presses while the hidden Pause-Ctrl is held do not count
    let mut num = 0usize;
    for (i, (k, s)) in h.iter().enumerate() {
        if *k == KeyCode::NumpadLock && *s == KeyState::Down {
            let held = matches!(
                h[..i].iter().rev().find(|(k2, s2)| *k2 == KeyCode::RControl2 && *s2 != KeyState::SingleShot),
                Some((_, KeyState::Down))
            );
            if !held {
                num += 1;
            }
        }
    }
    if num % 2 == 0 {
        m |= M_NUM;
    }
    m
}

// ---- devices -----------------------------------------------------------------------------------

#[derive(Clone, Debug, PartialEq)]
pub enum EvAct {
    Key(KeyCode, KeyState),
    Ctrl(HandleControl),
    Layout(u8),
    /// an operation on another stage of a Keyboard that must not influence key-event decoding:
    /// 0 = add_word with a parity error, 1 = add_byte(0xE0) (a pending scancode prefix), 2 = clear()
    Noise(u8),
}
impl EvAct {
    pub fn op(&self) -> Op {
        match self {
            EvAct::Key(k, s) => Op::Key(*k, *s),
            EvAct::Ctrl(m) => Op::Ctrl(*m),
            EvAct::Layout(t) => Op::Layout(*t),
            EvAct::Noise(0) => Op::Word(crate::props::frame::encode(0x1C) ^ (1 << 9)),
            EvAct::Noise(1) => Op::Byte(0xE0),
            EvAct::Noise(_) => Op::Clear,
        }
    }
}

pub trait KeyDev: Clone + PartialEq + Debug + Send + Sync + 'static {
    const HAS_LAYOUT_CHANGE: bool;
    fn fresh(mode: HandleControl) -> Self;
    fn key(&mut self, k: KeyCode, s: KeyState) -> Option<DecodedKey>;
    fn set_ctrl(&mut self, m: HandleControl);
    fn change_layout(&mut self, _tag: u8) {}
    /// number of noise operations this device offers (operations on other stages)
    const NOISE: u8 = 0;
    fn noise(&mut self, _i: u8) {}
    fn mods(&self) -> Option<u16>;
    fn mode(&self) -> HandleControl;
    fn component(mode: HandleControl) -> String;
}
impl KeyDev for EventDecoder<Echo> {
    const HAS_LAYOUT_CHANGE: bool = true;
    fn fresh(mode: HandleControl) -> Self {
        EventDecoder::new(Echo(0), mode)
    }
    fn key(&mut self, k: KeyCode, s: KeyState) -> Option<DecodedKey> {
        self.process_keyevent(KeyEvent::new(k, s))
    }
    fn set_ctrl(&mut self, m: HandleControl) {
        let _ = self.set_ctrl_handling(m);
    }
    fn change_layout(&mut self, tag: u8) {
        let _ = EventDecoder::change_layout(self, Echo(tag));
    }
    fn mods(&self) -> Option<u16> {
        None
    }
    fn mode(&self) -> HandleControl {
        self.get_ctrl_handling()
    }
    fn component(mode: HandleControl) -> String {
        format!("ed:echo-0:{}", mode_name(mode))
    }
}
macro_rules! kb_keydev {
    ($set:ty, $name:expr) => {
        impl KeyDev for Keyboard<Echo, $set> {
            const HAS_LAYOUT_CHANGE: bool = false;
            fn fresh(mode: HandleControl) -> Self {
                Keyboard::new(<$set>::new(), Echo(0), mode)
            }
            fn key(&mut self, k: KeyCode, s: KeyState) -> Option<DecodedKey> {
                self.process_keyevent(KeyEvent::new(k, s))
            }
            fn set_ctrl(&mut self, m: HandleControl) {
                let _ = self.set_ctrl_handling(m);
            }
            const NOISE: u8 = 3;
            fn noise(&mut self, i: u8) {
                match i {
                    0 => {
                        let _ = self.add_word(crate::props::frame::encode(0x1C) ^ (1 << 9));
                    }
                    1 => {
                        let _ = self.add_byte(0xE0);
                    }
                    _ => {
                        let _ = self.clear();
                    }
                }
            }
            fn mods(&self) -> Option<u16> {
                Some(bits_from_mods(self.get_modifiers()))
            }
            fn mode(&self) -> HandleControl {
                self.get_ctrl_handling()
            }
            fn component(mode: HandleControl) -> String {
                format!("kb:echo-0:{}:{}", $name, mode_name(mode))
            }
        }
    };
}
kb_keydev!(ScancodeSet2, "set2");
kb_keydev!(ScancodeSet1, "set1");

/// reference state: (modifier bits, mode, layout tag)
pub type RState = (u16, u8, u8);

pub struct EvSys<D: KeyDev> {
    pub alphabet: Vec<EvAct>,
    pub init_mode: HandleControl,
    pub check_mods: bool,
    pub check_ret: bool,
    pub _d: std::marker::PhantomData<D>,
}

pub fn ev_alphabet_noise(layout_change: bool, noise: u8) -> Vec<EvAct> {
    let mut v = ev_alphabet(layout_change);
    for i in 0..noise {
        v.push(EvAct::Noise(i));
    }
    v
}

pub fn ev_alphabet(layout_change: bool) -> Vec<EvAct> {
    let mut v = vec![];
    for k in ALL_KEYS {
        for s in KEY_STATES {
            v.push(EvAct::Key(k, s));
        }
    }
    v.push(EvAct::Ctrl(HandleControl::MapLettersToUnicode));
    v.push(EvAct::Ctrl(HandleControl::Ignore));
    if layout_change {
        v.push(EvAct::Layout(0));
        v.push(EvAct::Layout(1));
    }
    v
}

/// What C14 requires a key event to return, given the reference state *after* the event.
pub fn expected_return(k: KeyCode, s: KeyState, before: u16, after: u16, mode: HandleControl, tag: u8) -> Option<DecodedKey> {
    if s != KeyState::Down {
        return None;
    }
    if k == KeyCode::NumpadLock {
        return Some(DecodedKey::RawKey(if before & M_RCTRL2 != 0 { KeyCode::PauseBreak } else { KeyCode::NumpadLock }));
    }
    if is_modifier_key(k) {
        return Some(DecodedKey::RawKey(k));
    }
    Some(DecodedKey::Unicode(echo_encode(tag, k, after, mode)))
}

impl<D: KeyDev> Sys for EvSys<D> {
    type S = (Rid<D>, RState);
    type A = EvAct;
    type O = String;
    fn init(&self) -> Self::S {
        (Rid(D::fresh(self.init_mode)), (M_INIT, mode_bit(self.init_mode) as u8, 0))
    }
    fn alphabet(&self) -> &[EvAct] {
        &self.alphabet
    }
    fn step(&self, s: &Self::S, a: &EvAct) -> Step<Self::S, String> {
        let mut d = s.0 .0.clone();
        let (m, modeb, tag) = s.1;
        let mode = MODES[modeb as usize];
        let mut bad = None;
        let mut out = String::new();
        let ns: RState;
        match a {
            EvAct::Ctrl(nm) => {
                let r = catch_unwind(AssertUnwindSafe(|| d.set_ctrl(*nm)));
                ns = (m, mode_bit(*nm) as u8, tag);
                out = "()".into();
                if r.is_err() {
                    bad = Some(Bad { key: "ev/set_ctrl_handling/panic".into(), text: "set_ctrl_handling panicked".into(), expected: "()".into(), observed: "PANIC".into() });
                    out = "PANIC".into();
                } else if self.check_ret && d.mode() != *nm {
                    bad = Some(Bad {
                        key: format!("ev/get_ctrl_handling/after-set-{}", mode_name(*nm)),
                        text: format!("after set_ctrl_handling({}) get_ctrl_handling() reports {}", mode_name(*nm), mode_name(d.mode())),
                        expected: "()".into(),
                        observed: out.clone(),
                    });
                }
            }
            EvAct::Noise(i) => {
                let r = catch_unwind(AssertUnwindSafe(|| d.noise(*i)));
                ns = (m, modeb, tag);
                out = if r.is_ok() { "()".into() } else { "PANIC".into() };
                if r.is_err() {
                    bad = Some(Bad { key: format!("ev/noise{}/panic", i), text: "an operation on another stage panicked".into(), expected: "()".into(), observed: "PANIC".into() });
                }
            }
            EvAct::Layout(t) => {
                let r = catch_unwind(AssertUnwindSafe(|| d.change_layout(*t)));
                ns = (m, modeb, *t);
                out = if r.is_ok() { "()".into() } else { "PANIC".into() };
                if r.is_err() {
                    bad = Some(Bad { key: "ev/change_layout/panic".into(), text: "change_layout panicked".into(), expected: "()".into(), observed: "PANIC".into() });
                }
            }
            EvAct::Key(k, st) => {
                let r = catch_unwind(AssertUnwindSafe(|| d.key(*k, *st)));
                let after = rmods_step(m, *k, *st);
                ns = (after, modeb, tag);
                match r {
                    Err(e) => {
                        out = crate::replay::panic_text(e);
                        bad = Some(Bad {
                            key: format!("ev/panic/{}:{}", key_name(*k), state_name(*st)),
                            text: format!("process_keyevent({:?} {:?}) panicked in state mods={} mode={}", k, st, mods_text(m), mode_name(mode)),
                            expected: "no panic".into(),
                            observed: out.clone(),
                        });
                    }
                    Ok(ret) => {
                        out = fmt_dk(&ret);
                        if self.check_ret {
                            let want = expected_return(*k, *st, m, after, mode, tag);
                            if ret != want {
                                bad = Some(Bad {
                                    key: format!("ev/return/{}:{}/mods:{}/mode:{}/tag:{}", key_name(*k), state_name(*st), m, mode_name(mode), tag),
                                    text: format!(
                                        "process_keyevent({:?} {:?}) with modifiers [{}], mode {}, layout tag {} must return {} but returns {}",
                                        k, st, mods_text(m), mode_name(mode), tag, fmt_dk(&want), fmt_dk(&ret)
                                    ),
                                    expected: fmt_dk(&want),
                                    observed: out.clone(),
                                });
                            }
                        }
                        if self.check_mods && bad.is_none() {
                            // (a) the getter
                            if let Some(got) = d.mods() {
                                if got != after {
                                    bad = Some(Bad {
                                        key: format!("mods/getter/{}:{}/from:{}", key_name(*k), state_name(*st), m),
                                        text: format!(
                                            "after {:?} {:?} from modifiers [{}] get_modifiers() must report [{}] but reports [{}]",
                                            k, st, mods_text(m), mods_text(after), mods_text(got)
                                        ),
                                        expected: format!("mods={}", mods_text(after)),
                                        observed: out.clone(),
                                    });
                                }
                            }
                            // (b) what the layout is shown (ordinary key presses reach Echo)
                            if bad.is_none() {
                                if let Some(DecodedKey::Unicode(c)) = ret {
                                    if (c as u32) >= 0x10000 {
                                        let seen = (((c as u32) - 0x10000) >> 7) as u16 & 0x1FF;
                                        if seen != after {
                                            bad = Some(Bad {
                                                key: format!("mods/layout-sees/{}:{}/from:{}", key_name(*k), state_name(*st), m),
                                                text: format!(
                                                    "pressing {:?} with modifiers [{}]: the layout is shown [{}]",
                                                    k, mods_text(after), mods_text(seen)
                                                ),
                                                expected: format!("layout consulted with mods={}", mods_text(after)),
                                                observed: out.clone(),
                                            });
                                        }
                                    }
                                }
                            }
                        }
                    }
                }
            }
        }
        Step { next: (Rid(d), ns), out, bad }
    }
}

fn run_evsys<D: KeyDev>(ctx: &mut Ctx, label: &str, check_mods: bool, check_ret: bool, layout_change: bool, init_mode: HandleControl) -> u64 {
    let sys = Arc::new(EvSys::<D> {
        alphabet: ev_alphabet_noise(layout_change && D::HAS_LAYOUT_CHANGE, if check_ret { D::NOISE } else { 0 }),
        init_mode,
        check_mods,
        check_ret,
        _d: std::marker::PhantomData,
    });
    let (g, sr, errs) = explore_both(sys.clone(), false, 100_000);
    for e in errs {
        ctx.machinery(&format!("{}: {}", label, e));
    }
    let comp = D::component(init_mode);
    for (si, ai, b) in &g.bads {
        let mut ops: Vec<Op> = g.path_to(*si).iter().map(|a| sys.alphabet[*a].op()).collect();
        ops.push(sys.alphabet[*ai].op());
        let mut observed = b.observed.clone();
        if b.key.starts_with("mods/getter") {
            // make the replay show the getter
            ops.push(Op::Mods);
            observed = crate::replay::run_part(&comp, &ops).pop().unwrap_or_default();
        }
        ctx.violation(&b.key, &format!("{}: {}", comp, b.text), Replay::one(&comp, ops, &b.expected, Some(observed)));
    }
    let refs: BTreeSet<RState> = g.states.iter().map(|s| s.1).collect();
    let tags = if layout_change && D::HAS_LAYOUT_CHANGE { 2 } else { 1 };
    if g.capped {
        ctx.cap_hit(label, 100_000);
    }
    ctx.expect(g.capped || refs.len() == 512 * 2 * tags, &format!("{}: all {} reference states (512 modifier values x 2 modes x {} layout tags) visited (saw {})", label, 1024 * tags, tags, refs.len()));
    ctx.expect(g.capped || g.edges == g.states.len() as u64 * sys.alphabet.len() as u64, &format!("{}: transitions == states x |alphabet|", label));
    ctx.states += g.states.len() as u64;
    ctx.transitions += g.edges;
    ctx.traces_validated += g.edges;
    ctx.evaluations += g.edges;
    ctx.part(
        label,
        json!({"engine": "A (own BFS + stateright cross-check)", "product_states": g.states.len(), "reference_states_visited": refs.len(), "alphabet": sys.alphabet.len(),
               "transitions": g.edges, "max_depth": g.max_depth, "stateright_unique_states": sr.unique_states, "violating_edges": g.bads.len()}),
    );
    g.edges
}

// ---- C04 ---------------------------------------------------------------------------------------

fn c04_history_tree(ctx: &mut Ctx, depth: usize) {
    // alphabet: 9 modifier/lock keys x {Down, Up} + fillers
    let mut alpha: Vec<(KeyCode, KeyState)> = vec![];
    for k in [KeyCode::LShift, KeyCode::RShift, KeyCode::LControl, KeyCode::RControl, KeyCode::LAlt, KeyCode::RAltGr, KeyCode::RControl2, KeyCode::CapsLock, KeyCode::NumpadLock] {
        alpha.push((k, KeyState::Down));
        alpha.push((k, KeyState::Up));
    }
    alpha.push((KeyCode::F1, KeyState::Down));
    alpha.push((KeyCode::A, KeyState::Up));
    alpha.push((KeyCode::PowerOnTestOk, KeyState::SingleShot));
    alpha.push((KeyCode::CapsLock, KeyState::SingleShot));
    alpha.push((KeyCode::LShift, KeyState::SingleShot));
    let n_alpha = alpha.len();
    type HB = (Vec<(KeyCode, KeyState)>, u16, u16);
    fn rec(kb: &Keyboard<Echo, ScancodeSet2>, h: &mut Vec<(KeyCode, KeyState)>, alpha: &[(KeyCode, KeyState)], only: Option<usize>, depth: usize, guard: bool, n: &mut u64, bads: &mut Vec<HB>) {
        for (i, (k, s)) in alpha.iter().enumerate() {
            if only.map_or(false, |o| o != i) {
                continue;
            }
            let mut k2 = kb.clone();
            let ok = if guard {
                catch_unwind(AssertUnwindSafe(|| {
                    let _ = k2.process_keyevent(KeyEvent::new(*k, *s));
                }))
                .is_ok()
            } else {
                let _ = k2.process_keyevent(KeyEvent::new(*k, *s));
                true
            };
            h.push((*k, *s));
            *n += 1;
            let want = rmods_history(h);
            let got = if ok { bits_from_mods(k2.get_modifiers()) } else { 0xFFFF };
            if want != got && bads.len() < 16 {
                bads.push((h.clone(), want, got));
            }
            if ok && h.len() < depth {
                rec(&k2, h, alpha, None, depth, guard, n, bads);
            }
            h.pop();
        }
    }
    let results = par_chunks(n_alpha, |first| {
        let run = |guard: bool| {
            let mut n = 0u64;
            let mut bads: Vec<HB> = vec![];
            let kb = Keyboard::new(ScancodeSet2::new(), Echo(0), HandleControl::Ignore);
            let mut h = vec![];
            rec(&kb, &mut h, &alpha, Some(first), depth, guard, &mut n, &mut bads);
            (n, bads)
        };
        match catch_unwind(AssertUnwindSafe(|| run(false))) {
            Ok(r) => r,
            Err(_) => run(true),
        }
    });
    let mut total = 0;
    for (n, bads) in results {
        total += n;
        for (h, want, got) in bads {
            let mut ops: Vec<Op> = h.iter().map(|(k, s)| Op::Key(*k, *s)).collect();
            ops.push(Op::Mods);
            let comp = "kb:echo-0:set2:Ignore";
            let obs = crate::replay::run_part(comp, &ops).pop().unwrap_or_default();
            let (lk, ls) = h[h.len() - 1];
            let before = rmods_history(&h[..h.len() - 1]);
            ctx.violation(
                &format!("mods/getter/{}:{}/from:{}", key_name(lk), state_name(ls), before),
                &format!("{}: after the event history {:?} get_modifiers() must report [{}] but reports [{}]", comp, h, mods_text(want), if got == 0xFFFF { "PANIC".to_string() } else { mods_text(got) }),
                Replay::one(comp, ops, &format!("mods={}", mods_text(want)), Some(obs)),
            );
        }
    }
    ctx.evaluations += total;
    ctx.traces_validated += total;
    ctx.part("tree:event-histories vs R-MODS(history form)", json!({"engine": "B stream tree (hook-free)", "alphabet": n_alpha, "depth": depth, "histories_checked": total}));
}

pub fn c04(ctx: &mut Ctx) -> (u64, String) {
    ctx.trust("R-MODS: nine-flag record in step form and in history form (harness/src/props/events.rs rmods_step / rmods_history), written from the property text");
    ctx.assume("state identity = derived PartialEq over all fields (hook H3); the history tree needs no hook");
    let mut edges = 0;
    edges += run_evsys::<Keyboard<Echo, ScancodeSet2>>(ctx, "bfs:Keyboard<Echo,Set2> x R-MODS", true, false, false, HandleControl::MapLettersToUnicode);
    edges += run_evsys::<EventDecoder<Echo>>(ctx, "bfs:EventDecoder<Echo> x R-MODS (with change_layout actions)", true, false, true, HandleControl::Ignore);
    edges += pump_events(ctx, true, false);
    crate::props::tlaconf::mods_conformance(ctx);
    if ctx.thorough() {
        edges += run_evsys::<Keyboard<Echo, ScancodeSet1>>(ctx, "bfs:Keyboard<Echo,Set1> x R-MODS", true, false, false, HandleControl::Ignore);
    }
    c04_history_tree(ctx, if ctx.thorough() { 5 } else { 4 });
    ctx.sample_run("kb:echo-0:set2:Map", &["key:RControl2:Down", "key:NumpadLock:Down", "mods", "key:RControl2:Up", "key:NumpadLock:Down", "mods", "key:LAlt:Down", "key:RAltGr:Down", "key:LAlt:Up", "mods", "key:PowerOnTestOk:SingleShot", "mods"]);
    ctx.sample(json!({"history": ["RControl2 Down", "NumpadLock Down", "RControl2 Up"], "reference": "numlock unchanged (Pause), rctrl2 released"}));
    ctx.sample(json!({"history": ["LAlt Down", "RAltGr Down", "LAlt Up"], "reference": "ralt still held, lalt released"}));
    (
        edges,
        "closed BFS of the real Keyboard<Echo,_> / EventDecoder<Echo> x R-MODS over 124 keys x {Down,Up,SingleShot} + 2 mode switches from every reachable state (512 x 2 reference states); get_modifiers() and the modifiers shown to the layout compared after every transition; plus every event history up to the stated depth over the 9 modifier keys x {Down,Up} + 5 fillers against the history form; a case is one (state, event) transition".into(),
    )
}

// ---- C14 ---------------------------------------------------------------------------------------

/// shortest key-event path from the initial modifier state to `target` (by R-MODS), used to drive
/// decoders whose layout type is not cloneable (real AnyLayout)
pub fn mods_paths() -> Vec<Vec<(KeyCode, KeyState)>> {
    let mut paths: Vec<Option<Vec<(KeyCode, KeyState)>>> = vec![None; 512];
    let mut q = std::collections::VecDeque::new();
    paths[M_INIT as usize] = Some(vec![]);
    q.push_back(M_INIT);
    let acts: Vec<(KeyCode, KeyState)> = ALL_KEYS.iter().filter(|k| is_modifier_key(**k)).flat_map(|k| [(*k, KeyState::Down), (*k, KeyState::Up)]).collect();
    while let Some(m) = q.pop_front() {
        for (k, s) in &acts {
            let n = rmods_step(m, *k, *s);
            if paths[n as usize].is_none() {
                let mut p = paths[m as usize].clone().unwrap();
                p.push((*k, *s));
                paths[n as usize] = Some(p);
                q.push_back(n);
            }
        }
    }
    paths.into_iter().map(|p| p.expect("all 512 modifier values reachable in R-MODS")).collect()
}

fn c14_anylayout(ctx: &mut Ctx, byref: bool) {
    let paths = mods_paths();
    let plain_keys: Vec<KeyCode> = ALL_KEYS.iter().copied().filter(|k| !is_modifier_key(*k)).collect();
    let results = par_chunks(100, |pair| {
        let from = pair / 10;
        let to = pair % 10;
        let mut n = 0u64;
        let mut bads = vec![];
        for m in 0..512u16 {
            for mode in MODES {
                macro_rules! body {
                    ($d:expr, $mk:expr) => {{
                        for k in &plain_keys {
                            // a fresh decoder for every key: the recorded replay is exactly what was executed
                            let mut d = $d;
                            let prep = guarded(|| {
                                for (k, s) in &paths[m as usize] {
                                    let _ = d.process_keyevent(KeyEvent::new(*k, *s));
                                }
                                let _ = d.change_layout($mk);
                            });
                            if prep.is_ok() {
                                let got = guarded(|| d.process_keyevent(KeyEvent::new(*k, KeyState::Down)));
                                let want = guarded(|| Some(map_direct(to, *k, &mods_from_bits(m), mode)));
                                n += 1;
                                if got != want && bads.len() < 8 {
                                    let f = |r: &Result<Option<DecodedKey>, String>| match r {
                                        Ok(x) => fmt_dk(x),
                                        Err(p) => p.clone(),
                                    };
                                    bads.push((from, to, m, mode, *k, f(&want), f(&got)));
                                }
                            }
                        }
                    }};
                }
                if byref {
                    body!(EventDecoder::new(any_static(from), mode), any_static(to));
                } else {
                    body!(EventDecoder::<AnyLayout>::new(any_of(from), mode), any_of(to));
                }
            }
        }
        (n, bads)
    });
    let paths = mods_paths();
    let mut total = 0;
    for (n, bads) in results {
        total += n;
        for (from, to, m, mode, k, want, got) in bads {
            let comp = format!("ed:{}-{}:{}", if byref { "anyref" } else { "any" }, LAYOUT_NAMES[from], mode_name(mode));
            let mut ops: Vec<Op> = paths[m as usize].iter().map(|(k, s)| Op::Key(*k, *s)).collect();
            ops.push(Op::Layout(to as u8));
            ops.push(Op::Key(k, KeyState::Down));
            ctx.violation(
                &format!("ev/anylayout{}/{}->{}/{}/mods:{}/{}", if byref { "-ref" } else { "" }, LAYOUT_NAMES[from], LAYOUT_NAMES[to], key_name(k), m, mode_name(mode)),
                &format!(
                    "EventDecoder<{}AnyLayout> built with {}, modifiers [{}], then change_layout({}): pressing {:?} must return what {} returns directly ({}) but returns {}",
                    if byref { "&" } else { "" }, LAYOUT_NAMES[from], mods_text(m), LAYOUT_NAMES[to], k, LAYOUT_NAMES[to], want, got
                ),
                Replay::one(&comp, ops, &want, Some(got)),
            );
        }
    }
    ctx.evaluations += total;
    ctx.traces_validated += total;
    ctx.part(
        if byref { "replay:EventDecoder<&AnyLayout> change_layout 10x10" } else { "replay:EventDecoder<AnyLayout> change_layout 10x10" },
        json!({"engine": "B (replay from the initial state)", "ordered_layout_pairs": 100, "modifier_states": 512, "modes": 2, "keys": 115, "presses_checked": total}),
    );
}

/// all ten real layouts through `Wrap` inside a cloneable EventDecoder: every key press in every
/// reachable state must return what the direct call returns
fn c14_wrap(ctx: &mut Ctx) {
    let paths = mods_paths();
    let results = par_chunks(N_LAYOUTS, |l| {
        let mut n = 0u64;
        let mut bads = vec![];
        for m in 0..512u16 {
            for mode in MODES {
                let mut d = EventDecoder::new(Wrap(l as u8), mode);
                if guarded(|| {
                    for (k, s) in &paths[m as usize] {
                        let _ = d.process_keyevent(KeyEvent::new(*k, *s));
                    }
                })
                .is_err()
                {
                    continue;
                }
                let f = |r: &Result<Option<DecodedKey>, String>| match r {
                    Ok(x) => fmt_dk(x),
                    Err(p) => p.clone(),
                };
                for k in ALL_KEYS {
                    if is_modifier_key(k) {
                        continue;
                    }
                    let mut d2 = d.clone();
                    let got = guarded(|| d2.process_keyevent(KeyEvent::new(k, KeyState::Down)));
                    let want = guarded(|| Some(map_direct(l, k, &mods_from_bits(m), mode)));
                    n += 1;
                    if got != want && bads.len() < 8 {
                        bads.push((l, m, mode, k, f(&want), f(&got)));
                    }
                    // and the other way round: flipping the mode right before the press takes effect at once
                    let other = if mode == HandleControl::Ignore { HandleControl::MapLettersToUnicode } else { HandleControl::Ignore };
                    let mut d3 = d.clone();
                    d3.set_ctrl_handling(other);
                    let got = guarded(|| d3.process_keyevent(KeyEvent::new(k, KeyState::Down)));
                    let want = guarded(|| Some(map_direct(l, k, &mods_from_bits(m), other)));
                    n += 1;
                    if got != want && bads.len() < 8 {
                        bads.push((l, m, other, k, f(&want), f(&got)));
                    }
                }
            }
        }
        (n, bads)
    });
    let mut total = 0;
    for (n, bads) in results {
        total += n;
        for (l, m, mode, k, want, got) in bads {
            let comp = format!("ed:wrap-{}:{}", LAYOUT_NAMES[l], mode_name(mode));
            let mut ops: Vec<Op> = paths[m as usize].iter().map(|(k, s)| Op::Key(*k, *s)).collect();
            ops.push(Op::Key(k, KeyState::Down));
            ctx.violation(
                &format!("ev/wrap/{}/{}/mods:{}/{}", LAYOUT_NAMES[l], key_name(k), m, mode_name(mode)),
                &format!("EventDecoder over layout {}: with modifiers [{}] in mode {}, pressing {:?} must return the layout's own answer {} but returns {}", LAYOUT_NAMES[l], mods_text(m), mode_name(mode), k, want, got),
                Replay::one(&comp, ops, &want, Some(got)),
            );
        }
    }
    ctx.evaluations += total;
    ctx.traces_validated += total;
    ctx.part("sweep:EventDecoder<Wrap(real layout)> vs direct call", json!({"layouts": 10, "modifier_states": 512, "modes": 2, "presses_checked": total}));
}

// ---- pumped event words and the two-press sweep ------------------------------------------------------

/// every word of <= 2 key events (372 + 372^2 words) repeated 200 times on one Keyboard<Echo,Set2>, each step checked
/// against R-MODS (getter / what the layout is shown) and/or the prescribed return value
pub fn pump_events(ctx: &mut Ctx, check_mods: bool, check_ret: bool) -> u64 {
    let mut evs: Vec<(KeyCode, KeyState)> = vec![];
    for k in ALL_KEYS {
        for s in KEY_STATES {
            evs.push((k, s));
        }
    }
    let n_ev = evs.len();
    let reps = 200usize;
    let results = par_chunks(n_ev, |first| {
        let mut n = 0u64;
        let mut bads: Vec<(Vec<(KeyCode, KeyState)>, usize, usize, String, String, &'static str)> = vec![];
        // words: [first] and [first, second] for every second
        for second in std::iter::once(None).chain((0..n_ev).map(Some)) {
            let mut word = vec![evs[first]];
            if let Some(s) = second {
                word.push(evs[s]);
            }
            let mut kb = Keyboard::new(ScancodeSet2::new(), Echo(0), HandleControl::MapLettersToUnicode);
            let mut m = M_INIT;
            'w: for rep in 0..reps {
                for (i, (k, st)) in word.iter().enumerate() {
                    let r = guarded(|| kb.process_keyevent(KeyEvent::new(*k, *st)));
                    n += 1;
                    let after = rmods_step(m, *k, *st);
                    let want_ret = expected_return(*k, *st, m, after, HandleControl::MapLettersToUnicode, 0);
                    m = after;
                    let mut fail: Option<(String, String, &'static str)> = None;
                    match &r {
                        Err(p) => fail = Some(("no panic".into(), p.clone(), "panic")),
                        Ok(ret) => {
                            if check_ret && *ret != want_ret {
                                fail = Some((fmt_dk(&want_ret), fmt_dk(ret), "return"));
                            } else if check_mods {
                                let got = bits_from_mods(kb.get_modifiers());
                                if got != after {
                                    fail = Some((format!("mods={}", mods_text(after)), format!("mods={}", mods_text(got)), "getter"));
                                } else if let Some(DecodedKey::Unicode(c)) = ret {
                                    if (*c as u32) >= 0x10000 {
                                        let seen = (((*c as u32) - 0x10000) >> 7) as u16 & 0x1FF;
                                        if seen != after {
                                            fail = Some((format!("layout shown [{}]", mods_text(after)), format!("layout shown [{}]", mods_text(seen)), "layout-sees"));
                                        }
                                    }
                                }
                            }
                        }
                    }
                    if let Some((want, got, kind)) = fail {
                        if bads.len() < 3 {
                            bads.push((word.clone(), rep, i, want, got, kind));
                        }
                        break 'w;
                    }
                }
            }
        }
        (n, bads)
    });
    let mut total = 0;
    let mut nb = 0;
    for (n, bads) in results {
        total += n;
        for (word, rep, i, want, got, kind) in bads {
            nb += 1;
            let mut ops: Vec<Op> = vec![];
            for r in 0..=rep {
                let upto = if r == rep { i + 1 } else { word.len() };
                ops.extend(word[..upto].iter().map(|(k, s)| Op::Key(*k, *s)));
            }
            if kind == "getter" {
                ops.push(Op::Mods);
            }
            let comp = "kb:echo-0:set2:Map";
            let wt: Vec<String> = word.iter().map(|(k, s)| format!("{}:{}", key_name(*k), state_name(*s))).collect();
            let obs = if kind == "getter" { crate::replay::run_part(comp, &ops).pop() } else { Some(got.clone()) };
            ctx.violation(
                &format!("ev/pumped-{}/{}", kind, wt.join(",")),
                &format!("{}: the event word [{}] repeated: in repetition {} event {} must give {} but gives {}", comp, wt.join(", "), rep + 1, i + 1, want, got),
                Replay::one(comp, ops, &want, obs),
            );
        }
    }
    ctx.evaluations += total;
    ctx.traces_validated += total;
    ctx.part("pump:event words w^k on Keyboard<Echo,Set2>", json!({"engine": "B pumped streams", "words": n_ev + n_ev * n_ev, "repetitions": reps, "events_checked": total, "violations_recorded": nb}));
    total
}

// ---- decoder-level two-press family over real layouts -------------------------------------------------
// The layout properties (C03, C09, C10, C11, C15, C16) are stated about what users get; their table sweeps call the
// layout function directly. This family observes the same facts through a real EventDecoder after short histories:
// from each of the 1024 canonical (modifiers, mode) states, press key K, apply every sequence of <= `max_inter`
// intermediate actions (18 modifier key events, 2 mode switches, 9 ordinary keys, change_layout to each of the ten
// layouts), press K again, and hand the
// second press's result to the property's own point judge together with the reference modifier state (R-MODS).

pub fn family_intermediates() -> Vec<EvAct> {
    let mut inter: Vec<EvAct> = vec![];
    for k in ALL_KEYS {
        if is_modifier_key(k) {
            inter.push(EvAct::Key(k, KeyState::Down));
            inter.push(EvAct::Key(k, KeyState::Up));
        }
    }
    inter.push(EvAct::Ctrl(HandleControl::MapLettersToUnicode));
    inter.push(EvAct::Ctrl(HandleControl::Ignore));
    for k in [KeyCode::A, KeyCode::S, KeyCode::Q, KeyCode::W, KeyCode::Key1, KeyCode::Key4, KeyCode::Numpad8, KeyCode::F1, KeyCode::Oem7] {
        inter.push(EvAct::Key(k, KeyState::Down));
    }
    // the two status events Set 2 reports (key-detection overrun, self-test passed) and the release of an ordinary key:
    // none of them is a press or release of a modifier, so none may change what the next press types
    inter.push(EvAct::Key(KeyCode::TooManyKeys, KeyState::SingleShot));
    inter.push(EvAct::Key(KeyCode::PowerOnTestOk, KeyState::SingleShot));
    inter.push(EvAct::Key(KeyCode::A, KeyState::Up));
    // change_layout to every real layout (the decoder is over `Wrap`, so this installs another shipped layout)
    for id in 0..N_LAYOUTS {
        inter.push(EvAct::Layout(id as u8));
    }
    inter
}

pub struct FamilyBad {
    pub key: String,
    pub text: String,
    pub expected: String,
    pub observed: String,
    pub comp: String,
    pub ops: Vec<Op>,
}

/// judge(layout, key, reference modifiers at the second press, mode at the second press, result) -> Some((class, expected))
pub fn decoder_family<J>(ctx: &mut Ctx, label: &str, layouts: &[usize], keys_of: &(dyn Fn(usize) -> Vec<KeyCode> + Sync), max_inter: usize, judge: J) -> u64
where
    J: Fn(usize, KeyCode, u16, HandleControl, &Result<DecodedKey, String>) -> Option<(String, String)> + Sync,
{
    decoder_family_with(ctx, label, layouts, keys_of, max_inter, family_intermediates(), judge)
}

pub fn decoder_family_with<J>(ctx: &mut Ctx, label: &str, layouts: &[usize], keys_of: &(dyn Fn(usize) -> Vec<KeyCode> + Sync), max_inter: usize, inter: Vec<EvAct>, judge: J) -> u64
where
    J: Fn(usize, KeyCode, u16, HandleControl, &Result<DecodedKey, String>) -> Option<(String, String)> + Sync,
{
    decoder_family_opts(ctx, label, layouts, keys_of, FamOpts { max_inter, mod_pairs: false, key_then_mod_pairs: false, modifier_keys: false }, inter, judge)
}

#[derive(Clone, Copy)]
pub struct FamOpts {
    /// 1 = every single intermediate action, 2 = also every ordered pair of them
    pub max_inter: usize,
    /// with max_inter = 1: additionally every ordered pair of *modifier key events* (18 x 18) between the two presses
    pub mod_pairs: bool,
    /// with max_inter = 1: additionally every pair (press of one of the ordinary intermediate keys, then a modifier key event)
    pub key_then_mod_pairs: bool,
    /// also press the modifier and lock keys themselves (the judge then sees them as `k`; the reference modifiers it
    /// gets are those just before the second press)
    pub modifier_keys: bool,
}

pub fn decoder_family_opts<J>(ctx: &mut Ctx, label: &str, layouts: &[usize], keys_of: &(dyn Fn(usize) -> Vec<KeyCode> + Sync), opts: FamOpts, inter: Vec<EvAct>, judge: J) -> u64
where
    J: Fn(usize, KeyCode, u16, HandleControl, &Result<DecodedKey, String>) -> Option<(String, String)> + Sync,
{
    let max_inter = opts.max_inter;
    let mod_inter: Vec<EvAct> = inter.iter().filter(|a| matches!(a, EvAct::Key(k, _) if is_modifier_key(*k))).cloned().collect();
    let key_inter: Vec<EvAct> = inter.iter().filter(|a| matches!(a, EvAct::Key(k, KeyState::Down) if !is_modifier_key(*k))).cloned().collect();
    // every other key's press as a single intermediate action (pairs are only built from `inter`)
    let extra: Vec<EvAct> = ALL_KEYS.iter().filter(|k| !is_modifier_key(**k) && !inter.iter().any(|a| matches!(a, EvAct::Key(x, KeyState::Down) if x == *k))).map(|k| EvAct::Key(*k, KeyState::Down)).collect();
    let paths = mods_paths();
    let n_states = 1024usize;
    let jobs: Vec<(usize, usize)> = layouts.iter().flat_map(|l| (0..n_states).map(move |s| (*l, s))).collect();
    let results = par_chunks(jobs.len(), |ji| {
        let (l, si) = jobs[ji];
        let m0 = (si % 512) as u16;
        let mode0 = MODES[si / 512];
        let mut n = 0u64;
        let mut bads: Vec<FamilyBad> = vec![];
        let mut d0 = EventDecoder::new(Wrap(l as u8), mode0);
        if guarded(|| {
            for (k, s) in &paths[m0 as usize] {
                let _ = d0.process_keyevent(KeyEvent::new(*k, *s));
            }
        })
        .is_err()
        {
            return (0, bads);
        }
        // reference state: (modifiers, mode, current layout)
        let step = |d: &mut EventDecoder<Wrap>, r: &mut (u16, HandleControl, usize), a: &EvAct| -> bool {
            let ok = guarded(|| match a {
                EvAct::Key(k, s) => {
                    let _ = d.process_keyevent(KeyEvent::new(*k, *s));
                }
                EvAct::Ctrl(m) => {
                    let _ = d.set_ctrl_handling(*m);
                }
                EvAct::Layout(id) => {
                    let _ = d.change_layout(Wrap(*id));
                }
                EvAct::Noise(_) => {}
            })
            .is_ok();
            match a {
                EvAct::Key(k, s) => r.0 = rmods_step(r.0, *k, *s),
                EvAct::Ctrl(m) => r.1 = *m,
                EvAct::Layout(id) => r.2 = *id as usize,
                EvAct::Noise(_) => {}
            }
            ok
        };
        for k in keys_of(l) {
            if is_modifier_key(k) && !opts.modifier_keys {
                continue;
            }
            let mut d1 = d0.clone();
            if guarded(|| d1.process_keyevent(KeyEvent::new(k, KeyState::Down))).is_err() {
                continue;
            }
            let m1 = rmods_step(m0, k, KeyState::Down);
            let mut check = |seq: &[&EvAct], n: &mut u64, bads: &mut Vec<FamilyBad>| {
                let mut d = d1.clone();
                let mut r = (m1, mode0, l);
                for a in seq {
                    if !step(&mut d, &mut r, a) {
                        return;
                    }
                }
                let got = guarded(|| d.process_keyevent(KeyEvent::new(k, KeyState::Down)));
                *n += 1;
                let out: Result<DecodedKey, String> = match got {
                    Ok(Some(x)) => Ok(x),
                    Ok(None) => Err("None".into()),
                    Err(p) => Err(p),
                };
                if let Some((class, expected)) = judge(r.2, k, r.0, r.1, &out) {
                    if bads.len() < 3 {
                        let mut ops: Vec<Op> = paths[m0 as usize].iter().map(|(k, s)| Op::Key(*k, *s)).collect();
                        ops.push(Op::Key(k, KeyState::Down));
                        ops.extend(seq.iter().map(|a| a.op()));
                        ops.push(Op::Key(k, KeyState::Down));
                        let obs = match &out {
                            Ok(d) => format!("Some({})", dk_text(d)),
                            Err(p) => p.clone(),
                        };
                        let mid: Vec<String> = seq.iter().map(|a| a.op().text()).collect();
                        bads.push(FamilyBad {
                            key: format!("{}/{}/{}", LAYOUT_NAMES[r.2], key_name(k), class),
                            text: format!(
                                "[via EventDecoder] layout {} (decoder built with {}): from modifiers [{}] (mode {}), pressing {:?}, then [{}], then {:?} again: with modifiers [{}] in mode {} the second press must give {} but gives {}",
                                LAYOUT_NAMES[r.2], LAYOUT_NAMES[l], mods_text(m0), mode_name(mode0), k, mid.join(", "), k, mods_text(r.0), mode_name(r.1), expected, obs
                            ),
                            expected,
                            observed: obs,
                            comp: format!("ed:wrap-{}:{}", LAYOUT_NAMES[l], mode_name(mode0)),
                            ops,
                        });
                    }
                }
            };
            check(&[], &mut n, &mut bads);
            for a in &inter {
                check(&[a], &mut n, &mut bads);
                if max_inter >= 2 {
                    for b in &inter {
                        check(&[a, b], &mut n, &mut bads);
                    }
                }
            }
            for a in &extra {
                check(&[a], &mut n, &mut bads);
            }
            if max_inter < 2 && opts.mod_pairs {
                for a in &mod_inter {
                    for b in &mod_inter {
                        check(&[a, b], &mut n, &mut bads);
                    }
                }
            }
            if max_inter < 2 && opts.key_then_mod_pairs {
                for a in &key_inter {
                    for b in &mod_inter {
                        check(&[a, b], &mut n, &mut bads);
                    }
                }
            }
        }
        (n, bads)
    });
    let mut total = 0;
    let mut nb = 0;
    for (n, bads) in results {
        total += n;
        for b in bads {
            nb += 1;
            ctx.violation(&b.key, &b.text, Replay::one(&b.comp, b.ops, &b.expected, Some(b.observed)));
        }
    }
    ctx.evaluations += total;
    ctx.traces_validated += total;
    ctx.part(label, json!({"engine": "B two-press family through real EventDecoder", "layouts": layouts.len(), "start_states": n_states, "intermediate_actions": inter.len() + extra.len(), "of_which_also_used_in_pairs": inter.len(), "max_intermediate_sequence": max_inter, "key_press_then_modifier_event_pairs_too": opts.key_then_mod_pairs && max_inter < 2,
        "pairs_of_modifier_events_too": opts.mod_pairs && max_inter < 2, "modifier_and_lock_keys_pressed_too": opts.modifier_keys, "second_presses_judged": total, "violations_recorded": nb}));
    total
}

/// C14's "all orderings of mode/layout changes between two presses": from every canonical decoder state, press an
/// ordinary key, apply every sequence of <= 2 intermediate actions (modifier key events, mode switches, layout
/// switches), press the same key again; the second press must return what the statement prescribes.
fn c14_two_press(ctx: &mut Ctx, tags: u8) {
    let paths = mods_paths();
    let mut inter: Vec<EvAct> = vec![];
    for k in ALL_KEYS {
        if is_modifier_key(k) {
            inter.push(EvAct::Key(k, KeyState::Down));
            inter.push(EvAct::Key(k, KeyState::Up));
        }
    }
    inter.push(EvAct::Ctrl(HandleControl::MapLettersToUnicode));
    inter.push(EvAct::Ctrl(HandleControl::Ignore));
    inter.push(EvAct::Layout(0));
    inter.push(EvAct::Layout(1));
    for k in [KeyCode::A, KeyCode::S, KeyCode::Q, KeyCode::W, KeyCode::Key1, KeyCode::Numpad8, KeyCode::F1] {
        inter.push(EvAct::Key(k, KeyState::Down));
    }
    let plain: Vec<KeyCode> = ALL_KEYS.iter().copied().filter(|k| !is_modifier_key(*k)).collect();
    let n_states = 512 * 2 * tags as usize;
    let results = par_chunks(n_states, |si| {
        let m0 = (si % 512) as u16;
        let mode0 = MODES[(si / 512) % 2];
        let tag0 = (si / 1024) as u8;
        let mut n = 0u64;
        let mut bads: Vec<(Vec<Op>, String, String, KeyCode)> = vec![];
        let mut d0 = EventDecoder::new(Echo(0), mode0);
        let built = guarded(|| {
            for (k, s) in &paths[m0 as usize] {
                let _ = d0.process_keyevent(KeyEvent::new(*k, *s));
            }
            let _ = d0.change_layout(Echo(tag0));
        });
        if built.is_err() {
            return (0, bads);
        }
        // apply one action to (decoder, reference state)
        let apply = |d: &mut EventDecoder<Echo>, r: &mut RState, a: &EvAct| -> bool {
            guarded(|| match a {
                EvAct::Key(k, s) => {
                    let _ = d.process_keyevent(KeyEvent::new(*k, *s));
                }
                EvAct::Ctrl(m) => {
                    let _ = d.set_ctrl_handling(*m);
                }
                EvAct::Layout(t) => {
                    let _ = d.change_layout(Echo(*t));
                }
                EvAct::Noise(_) => {}
            })
            .map(|_| {
                match a {
                    EvAct::Key(k, s) => r.0 = rmods_step(r.0, *k, *s),
                    EvAct::Ctrl(m) => r.1 = mode_bit(*m) as u8,
                    EvAct::Layout(t) => r.2 = *t,
                    EvAct::Noise(_) => {}
                }
                true
            })
            .unwrap_or(false)
        };
        for k in &plain {
            let mut d1 = d0.clone();
            let r1: RState = (m0, mode_bit(mode0) as u8, tag0);
            if guarded(|| d1.process_keyevent(KeyEvent::new(*k, KeyState::Down))).is_err() {
                continue;
            }
            // sequences of 0, 1, 2 intermediate actions
            let mut check = |seq: &[&EvAct], n: &mut u64, bads: &mut Vec<(Vec<Op>, String, String, KeyCode)>| {
                let mut d = d1.clone();
                let mut r = r1;
                for a in seq {
                    if !apply(&mut d, &mut r, a) {
                        return;
                    }
                }
                let got = guarded(|| d.process_keyevent(KeyEvent::new(*k, KeyState::Down)));
                *n += 1;
                let want = expected_return(*k, KeyState::Down, r.0, r.0, MODES[r.1 as usize], r.2);
                if got != Ok(want) && bads.len() < 4 {
                    let mut ops: Vec<Op> = paths[m0 as usize].iter().map(|(k, s)| Op::Key(*k, *s)).collect();
                    ops.push(Op::Layout(tag0));
                    ops.push(Op::Key(*k, KeyState::Down));
                    ops.extend(seq.iter().map(|a| a.op()));
                    ops.push(Op::Key(*k, KeyState::Down));
                    let gt = match &got {
                        Ok(g) => fmt_dk(g),
                        Err(p) => p.clone(),
                    };
                    bads.push((ops, fmt_dk(&want), gt, *k));
                }
            };
            check(&[], &mut n, &mut bads);
            for a in &inter {
                check(&[a], &mut n, &mut bads);
                for b in &inter {
                    check(&[a, b], &mut n, &mut bads);
                }
            }
        }
        let bads = bads.into_iter().map(|(o, w, g, k)| (o, w, g, k, mode0)).collect::<Vec<_>>();
        (n, bads.into_iter().map(|(o, w, g, k, _)| (o, w, g, k)).collect())
    });
    let mut total = 0;
    let mut nb = 0;
    for (si, (n, bads)) in results.into_iter().enumerate() {
        total += n;
        let mode0 = MODES[(si / 512) % 2];
        for (ops, want, got, k) in bads {
            nb += 1;
            let comp = format!("ed:echo-0:{}", mode_name(mode0));
            let mid: Vec<String> = ops.iter().rev().skip(1).take_while(|o| !matches!(o, Op::Key(kk, KeyState::Down) if *kk == k)).map(|o| o.text()).collect::<Vec<_>>().into_iter().rev().collect();
            ctx.violation(
                &format!("ev/two-press/{}/between:{}", key_name(k), if mid.is_empty() { "-".to_string() } else { mid.join(",") }),
                &format!("{}: pressing {:?}, then [{}], then {:?} again (starting from modifiers [{}]): the second press must return {} but returns {}", comp, k, mid.join(", "), k, mods_text((si % 512) as u16), want, got),
                Replay::one(&comp, ops, &want, Some(got)),
            );
        }
    }
    ctx.evaluations += total;
    ctx.traces_validated += total;
    ctx.part("sweep:two presses of one key with <=2 modifier/mode/layout actions between", json!({"engine": "B", "start_states": n_states, "keys": plain.len(), "intermediate_actions": inter.len(), "second_presses_checked": total, "violations_recorded": nb}));
}

/// The layout is consulted exactly once per ordinary key press and never for a modifier or lock key press, a release or
/// a one-shot event: from every canonical state, one event of every kind and then an ordinary press, on a decoder whose
/// layout answers with its own consultation count.
fn c14_consultations(ctx: &mut Ctx) {
    let paths = mods_paths();
    let results = par_chunks(1024, |si| {
        let m0 = (si % 512) as u16;
        let mode = MODES[si / 512];
        let mut n = 0u64;
        let mut bads: Vec<(KeyCode, KeyState, String, String, &'static str)> = vec![];
        let mut d0 = EventDecoder::new(Count(std::cell::Cell::new(0)), mode);
        if guarded(|| {
            for (k, s) in &paths[m0 as usize] {
                let _ = d0.process_keyevent(KeyEvent::new(*k, *s));
            }
        })
        .is_err()
        {
            return (m0, mode, n, bads);
        }
        let c0 = 0u32; // modifier events only so far: no consultation is due
        for k in ALL_KEYS {
            for st in [KeyState::Down, KeyState::Up, KeyState::SingleShot] {
                // fresh decoder per event (the layout's counter is not Clone-shared)
                let mut d = EventDecoder::new(Count(std::cell::Cell::new(0)), mode);
                let r = guarded(|| {
                    for (pk, ps) in &paths[m0 as usize] {
                        let _ = d.process_keyevent(KeyEvent::new(*pk, *ps));
                    }
                    let r1 = d.process_keyevent(KeyEvent::new(k, st));
                    let r2 = d.process_keyevent(KeyEvent::new(KeyCode::Q, KeyState::Down));
                    (r1, r2)
                });
                n += 1;
                let Ok((r1, r2)) = r else { continue };
                let due = (st == KeyState::Down && !is_modifier_key(k)) as u32;
                let cnt = |x: u32| DecodedKey::Unicode(char::from_u32(0xE0000 + x).unwrap());
                if due == 1 && r1 != Some(cnt(c0 + 1)) && bads.len() < 3 {
                    bads.push((k, st, format!("Some({})", dk_text(&cnt(c0 + 1))), crate::replay::fmt_dk(&r1), "first"));
                }
                if r2 != Some(cnt(c0 + due + 1)) && bads.len() < 3 {
                    bads.push((k, st, format!("Some({})", dk_text(&cnt(c0 + due + 1))), crate::replay::fmt_dk(&r2), "second"));
                }
            }
        }
        (m0, mode, n, bads)
    });
    let mut total = 0;
    for (m0, mode, n, bads) in results {
        total += n;
        for (k, st, want, got, which) in bads {
            let mut ops: Vec<Op> = paths[m0 as usize].iter().map(|(k, s)| Op::Key(*k, *s)).collect();
            ops.push(Op::Key(k, st));
            if which == "second" {
                ops.push(Op::Key(KeyCode::Q, KeyState::Down));
            }
            ctx.violation(
                &format!("ev/consultations/{}:{}/{}", key_name(k), state_name(st), which),
                &format!(
                    "EventDecoder over a layout that answers with its own consultation count: from modifiers [{}] (mode {}), the event {:?} {:?}{} must return {} (one consultation per ordinary press, none otherwise) but returns {}",
                    mods_text(m0), mode_name(mode), k, st, if which == "second" { " followed by Q Down: that press" } else { "" }, want, got
                ),
                Replay::one(&format!("ed:count-0:{}", mode_name(mode)), ops, &want, Some(got)),
            );
        }
    }
    ctx.evaluations += total;
    ctx.traces_validated += total;
    ctx.part("replay:layout consultations counted (one per ordinary press, none otherwise)", json!({"start_states": 1024, "events_per_state": 372, "histories_checked": total}));
}

pub fn c14(ctx: &mut Ctx) -> (u64, String) {
    ctx.trust("R-MODS step form (see C04) supplies the 'current modifier state' the layout must be consulted with");
    ctx.assume("state identity = derived PartialEq over all fields (hook H3)");
    let mut edges = 0;
    edges += run_evsys::<EventDecoder<Echo>>(ctx, "bfs:EventDecoder<Echo> (2 layout tags)", false, true, true, HandleControl::MapLettersToUnicode);
    edges += run_evsys::<Keyboard<Echo, ScancodeSet2>>(ctx, "bfs:Keyboard<Echo,Set2>", false, true, false, HandleControl::Ignore);
    edges += run_evsys::<Keyboard<Echo, ScancodeSet1>>(ctx, "bfs:Keyboard<Echo,Set1>", false, true, false, HandleControl::MapLettersToUnicode);
    c14_anylayout(ctx, false);
    c14_two_press(ctx, if ctx.thorough() { 2 } else { 1 });
    c14_consultations(ctx);
    {
        let all: Vec<usize> = (0..N_LAYOUTS).collect();
        let deep = ctx.thorough();
        decoder_family(ctx, "family:delegation to the real layouts", &all, &|_l| ALL_KEYS.to_vec(), if deep { 2 } else { 1 }, |l, k, m, mode, out| {
            let want = guarded(|| map_direct(l, k, &mods_from_bits(m), mode));
            if *out != want {
                Some(("decoder-vs-layout".to_string(), match &want { Ok(d) => format!("what the layout returns: Some({})", dk_text(d)), Err(p) => p.clone() }))
            } else {
                None
            }
        });
    }
    edges += pump_events(ctx, false, true);
    if ctx.thorough() {
        c14_anylayout(ctx, true);
        c14_wrap(ctx);
    }
    ctx.sample_run("ed:echo-0:Map", &["key:LShift:Down", "layout:1", "key:Q:Down", "key:Q:Up", "ctrl:Ignore", "key:Q:Down", "key:RControl2:Down", "key:NumpadLock:Down", "key:TooManyKeys:SingleShot"]);
    ctx.sample_run("ed:any-uk105:Ignore", &["key:Q:Down", "layout:3", "key:Q:Down"]);
    ctx.sample(json!({"state": "mods=lshift+numlock mode=Map tag=1", "event": "Q Down", "reference": "Some(Echo[tag=1 key=Q mods=lshift+numlock mode=Map])"}));
    ctx.sample(json!({"state": "rctrl2 held", "event": "NumpadLock Down", "reference": "Some(RawKey(PauseBreak))"}));
    ctx.sample(json!({"ops": ["set_ctrl_handling(Ignore)", "A Down"], "reference": "layout consulted with mode=Ignore on the very next key"}));
    (
        edges,
        "closed BFS of the real EventDecoder<Echo> (with both layout tags) and Keyboard<Echo,_> over 124 keys x 3 key states + mode switches (+ layout switches) from all 1024/2048 reachable states; the recording layout proves which (key, modifiers, mode, layout) was consulted; real EventDecoder<AnyLayout> over all 10x10 ordered layout switches x 512 modifier states x 2 modes x 115 keys against the direct call; a case is one (state, event) transition".into(),
    )
}
