//! Engine A: explicit-state breadth-first exploration of transition systems whose transition
//! function *is the real code* (state = clone of the real object + reference-model state).
//!
//! Two explorers run over the same `Sys`: the harness's own BFS (keeps parent pointers, visits
//! every edge, collects every violating edge) and stateright's BFS checker (independent
//! fingerprint-based search). Their unique-state counts and verdicts must agree, otherwise the
//! run is a machinery failure.

use std::collections::HashMap;
use std::fmt::Debug;
use std::hash::{Hash, Hasher};
use std::sync::Arc;

use stateright::{Checker, Model, Property};

/// wall-clock budget of one breadth-first search in seconds (set by main according to the tier)
pub static BFS_BUDGET_S: std::sync::atomic::AtomicU64 = std::sync::atomic::AtomicU64::new(60);

/// Wrapper giving a real object (Debug + PartialEq via the hooks) a `Hash` based on its complete
/// Debug rendering.  The rendering is only used as an identity, never parsed.
#[derive(Clone, Debug)]
pub struct Rid<T>(pub T);
impl<T: PartialEq> PartialEq for Rid<T> {
    fn eq(&self, o: &Self) -> bool {
        self.0 == o.0
    }
}
impl<T: PartialEq> Eq for Rid<T> {}
impl<T: Debug> Hash for Rid<T> {
    fn hash<H: Hasher>(&self, h: &mut H) {
        format!("{:?}", self.0).hash(h)
    }
}

#[derive(Clone, Debug)]
pub struct Bad {
    pub key: String,
    pub text: String,
    pub expected: String,
    pub observed: String,
}

pub struct Step<S, O> {
    pub next: S,
    pub out: O,
    pub bad: Option<Bad>,
}

pub trait Sys: Send + Sync + 'static {
    type S: Clone + Eq + Hash + Debug + Send + Sync + 'static;
    type A: Clone + Debug + PartialEq + Send + Sync + 'static;
    type O: Clone;
    fn init(&self) -> Self::S;
    fn alphabet(&self) -> &[Self::A];
    fn step(&self, s: &Self::S, a: &Self::A) -> Step<Self::S, Self::O>;
}

pub struct Graph<Y: Sys> {
    pub states: Vec<Y::S>,
    pub parent: Vec<Option<(usize, usize)>>,
    pub depth: Vec<u32>,
    pub edges: u64,
    pub max_depth: u32,
    /// (source state index, action index, verdict)
    pub bads: Vec<(usize, usize, Bad)>,
    /// per state: successor index per action
    pub succ: Vec<Vec<u32>>,
    pub outs: Vec<Vec<Y::O>>,
    /// the state cap was hit: states with index >= `expanded` have not been expanded
    pub capped: bool,
    pub expanded: usize,
}

impl<Y: Sys> Graph<Y> {
    /// action indices leading from the initial state to state `i`
    pub fn path_to(&self, mut i: usize) -> Vec<usize> {
        let mut v = vec![];
        while let Some((p, a)) = self.parent[i] {
            v.push(a);
            i = p;
        }
        v.reverse();
        v
    }
}

pub fn bfs<Y: Sys>(sys: &Y, keep_edges: bool, max_states: usize) -> Graph<Y> {
    let mut g = Graph::<Y> {
        states: vec![],
        parent: vec![],
        depth: vec![],
        edges: 0,
        max_depth: 0,
        bads: vec![],
        succ: vec![],
        outs: vec![],
        capped: false,
        expanded: 0,
    };
    let started = std::time::Instant::now();
    let mut index: HashMap<Y::S, usize> = HashMap::new();
    let init = sys.init();
    index.insert(init.clone(), 0);
    g.states.push(init);
    g.parent.push(None);
    g.depth.push(0);
    let alphabet = sys.alphabet();
    let mut head = 0;
    while head < g.states.len() {
        // stop at the state cap - or once 5000 violating edges have been recorded: the search is breadth-first, so those
        // are the shallowest ones, and a tree that broken would otherwise be explored to the cap for nothing
        if g.states.len() > max_states || g.bads.len() >= 5000 {
            g.capped = true;
            break;
        }
        // wall-clock budget per search (60 s quick, 300 s thorough; the searches on the tree as it is take a few seconds at most): a changed
        // tree with many large states ends as "capped, not exhaustive" with what was found instead of hitting vcheck's kill
        if head % 256 == 0 && started.elapsed().as_secs() >= BFS_BUDGET_S.load(std::sync::atomic::Ordering::Relaxed) {
            g.capped = true;
            break;
        }
        let s = g.states[head].clone();
        let mut succ_row = Vec::with_capacity(if keep_edges { alphabet.len() } else { 0 });
        let mut out_row = Vec::with_capacity(if keep_edges { alphabet.len() } else { 0 });
        for (ai, a) in alphabet.iter().enumerate() {
            let st = sys.step(&s, a);
            g.edges += 1;
            if let Some(b) = st.bad {
                if g.bads.len() < 5000 {
                    g.bads.push((head, ai, b));
                }
            }
            let idx = match index.get(&st.next) {
                Some(i) => *i,
                None => {
                    let i = g.states.len();
                    index.insert(st.next.clone(), i);
                    g.states.push(st.next);
                    g.parent.push(Some((head, ai)));
                    let d = g.depth[head] + 1;
                    g.depth.push(d);
                    g.max_depth = g.max_depth.max(d);
                    i
                }
            };
            if keep_edges {
                succ_row.push(idx as u32);
                out_row.push(st.out);
            }
        }
        if keep_edges {
            g.succ.push(succ_row);
            g.outs.push(out_row);
        }
        head += 1;
    }
    g.expanded = head;
    g
}

// ---- stateright cross-check -----------------------------------------------------------------

pub struct SrModel<Y: Sys>(pub Arc<Y>);

impl<Y: Sys> Model for SrModel<Y> {
    type State = Y::S;
    type Action = usize;
    fn init_states(&self) -> Vec<Self::State> {
        vec![self.0.init()]
    }
    fn actions(&self, _s: &Self::State, actions: &mut Vec<Self::Action>) {
        actions.extend(0..self.0.alphabet().len());
    }
    fn next_state(&self, s: &Self::State, a: Self::Action) -> Option<Self::State> {
        Some(self.0.step(s, &self.0.alphabet()[a]).next)
    }
    fn properties(&self) -> Vec<Property<Self>> {
        vec![Property::always("every outgoing edge satisfies the oracle", all_edges_ok::<Y>)]
    }
}

fn all_edges_ok<Y: Sys>(m: &SrModel<Y>, s: &Y::S) -> bool {
    m.0.alphabet().iter().all(|a| m.0.step(s, a).bad.is_none())
}

pub struct SrResult {
    pub unique_states: usize,
    pub generated: usize,
    pub max_depth: usize,
    /// action indices of stateright's counterexample (path to the state that has a bad edge)
    pub counterexample: Option<Vec<usize>>,
}

pub fn stateright_bfs<Y: Sys>(sys: Arc<Y>, max_states: usize) -> SrResult {
    // stateright's target counts *generated* states (repeats included): allow every edge of max_states states
    let target = max_states.saturating_mul(sys.alphabet().len() + 1);
    let checker = SrModel(sys).checker().threads(1).target_state_count(target).spawn_bfs().join();
    let d = checker.discoveries();
    let cx = d.into_values().next().map(|p| p.into_actions());
    SrResult {
        unique_states: checker.unique_state_count(),
        generated: checker.state_count(),
        max_depth: checker.max_depth(),
        counterexample: cx,
    }
}

/// Run both explorers and compare. Returns the graph and a list of disagreements (machinery errors).
pub fn explore_both<Y: Sys>(sys: Arc<Y>, keep_edges: bool, max_states: usize) -> (Graph<Y>, SrResult, Vec<String>) {
    let t0 = std::time::Instant::now();
    let g = bfs(&*sys, keep_edges, max_states);
    // The stateright run is a cross-check of the explorer itself; it matters on the tree as it is (small state spaces,
    // sub-second). On a changed tree whose states are many or large the own BFS alone can take tens of seconds; the
    // cross-check is then skipped so that the check still ends within its wall-clock budget with its findings.
    let slow = t0.elapsed().as_secs_f64() > 30.0;
    let sr = if g.capped || slow {
        SrResult { unique_states: if slow && !g.capped { g.states.len() } else { 0 }, generated: 0, max_depth: 0, counterexample: None }
    } else {
        stateright_bfs(sys.clone(), max_states)
    };
    let mut errs = vec![];
    if slow && !g.capped {
        // no cross-check: nothing to compare
    } else if g.capped {
        // the subject's reachable state space is far larger than the reference model's: the search is not
        // closed (the caller reports the cap; violations found so far are real - BFS order: shallowest first)
    } else if g.bads.is_empty() {
        if sr.unique_states != g.states.len() {
            errs.push(format!(
                "explorers disagree on state count: own BFS {} vs stateright {}",
                g.states.len(),
                sr.unique_states
            ));
        }
        if sr.counterexample.is_some() {
            errs.push("stateright found a counterexample the harness BFS did not".into());
        }
    } else {
        match &sr.counterexample {
            None => errs.push("harness BFS found violating edges that stateright did not".into()),
            Some(cx) => {
                let min_depth = g.bads.iter().map(|(s, _, _)| g.depth[*s]).min().unwrap() as usize;
                if cx.len() != min_depth {
                    errs.push(format!(
                        "shortest counterexample length differs: own BFS {} vs stateright {}",
                        min_depth,
                        cx.len()
                    ));
                }
            }
        }
    }
    (g, sr, errs)
}
