//! Verdict bookkeeping: violations (with replay confirmation), known findings, evidence files,
//! exit codes.  0 = held, 1 = unlisted violation(s), 2 = machinery failure.

use crate::replay::{self, Replay};
use serde_json::{json, Map, Value};
use std::collections::BTreeMap;
use std::path::PathBuf;
use std::time::Instant;

pub const MAX_VIOLATION_LINES: usize = 20;
/// at most this many distinct violation keys are kept (and replay files written) per run; the rest are counted
pub const MAX_VIOLATIONS_KEPT: usize = 300;

#[derive(Clone, Copy, PartialEq, Eq, Debug)]
pub enum Tier {
    Quick,
    Thorough,
}
impl Tier {
    pub fn name(self) -> &'static str {
        match self {
            Tier::Quick => "quick",
            Tier::Thorough => "thorough",
        }
    }
}

pub struct Violation {
    pub key: String,
    pub text: String,
    pub replay: Replay,
    pub count: u64,
}

pub struct Known {
    pub findings: Vec<(String, String, String)>, // (property, key, text)
    pub fixed: Vec<String>,
}

pub fn verif_dir() -> PathBuf {
    std::env::var("VERIF_DIR").map(PathBuf::from).unwrap_or_else(|_| PathBuf::from("/verif"))
}

pub fn load_known() -> Known {
    let mut k = Known { findings: vec![], fixed: vec![] };
    let p = verif_dir().join("KNOWN_FINDINGS.txt");
    if let Ok(s) = std::fs::read_to_string(&p) {
        for line in s.lines() {
            let line = line.trim();
            if let Some(rest) = line.strip_prefix("finding:") {
                let rest = rest.trim();
                let mut prop = String::new();
                let mut key = String::new();
                let mut text = vec![];
                for tok in rest.split_whitespace() {
                    if let Some(v) = tok.strip_prefix("property=") {
                        if prop.is_empty() {
                            prop = v.to_string();
                            continue;
                        }
                    }
                    if let Some(v) = tok.strip_prefix("key=") {
                        if key.is_empty() {
                            key = v.to_string();
                            continue;
                        }
                    }
                    text.push(tok);
                }
                k.findings.push((prop, key, text.join(" ")));
            } else if line.starts_with("fixed:") {
                k.fixed.push(line.to_string());
            }
        }
    }
    k
}

pub struct Ctx {
    pub prop: String,
    pub tier: Tier,
    pub seed: i64,
    pub level: &'static str,
    pub start: Instant,
    pub violations: BTreeMap<String, Violation>,
    pub machinery_errors: Vec<String>,
    pub known: Known,
    pub coverage: Map<String, Value>,
    pub samples: Vec<Value>,
    pub assumptions: Vec<String>,
    pub trusted: Vec<String>,
    pub notes: Vec<String>,
    pub exhaustive: bool,
    pub evaluations: u64,
    pub states: u64,
    pub transitions: u64,
    pub traces_validated: u64,
    pub parts: Vec<Value>,
    pub violations_dropped: u64,
}

impl Ctx {
    pub fn new(prop: &str, tier: Tier, level: &'static str) -> Ctx {
        let seed = std::env::var("VERIF_SEED").ok().and_then(|s| s.parse().ok()).unwrap_or(0);
        Ctx {
            prop: prop.to_string(),
            tier,
            seed,
            level,
            start: Instant::now(),
            violations: BTreeMap::new(),
            machinery_errors: vec![],
            known: load_known(),
            coverage: Map::new(),
            samples: vec![],
            assumptions: vec![],
            trusted: vec![],
            notes: vec![],
            exhaustive: true,
            evaluations: 0,
            states: 0,
            transitions: 0,
            traces_validated: 0,
            parts: vec![],
            violations_dropped: 0,
        }
    }

    pub fn thorough(&self) -> bool {
        self.tier == Tier::Thorough
    }

    /// Record a violation. `key` is the stable id (component/config/input); violations with the
    /// same key are merged (count incremented, first = shortest kept).
    pub fn violation(&mut self, key: &str, text: &str, replay: Replay) {
        if let Some(v) = self.violations.get_mut(key) {
            v.count += 1;
            return;
        }
        if self.violations.len() >= MAX_VIOLATIONS_KEPT {
            // a listed known finding must never be crowded out by unlisted ones
            let listed = self.known.findings.iter().any(|(p, k, _)| *p == self.prop && k == key);
            if !listed {
                self.violations_dropped += 1;
                return;
            }
        }
        self.violations.insert(
            key.to_string(),
            Violation { key: key.to_string(), text: text.to_string(), replay, count: 1 },
        );
    }
    pub fn has_violation(&self, key: &str) -> bool {
        self.violations.contains_key(key)
    }

    pub fn machinery(&mut self, msg: &str) {
        eprintln!("MACHINERY-ERROR: {}", msg);
        self.machinery_errors.push(msg.to_string());
    }

    pub fn sample(&mut self, v: Value) {
        if self.samples.len() < 16 {
            self.samples.push(v);
        }
    }
    /// A sample that is actually executed on the real code during this run: the operation list and the transcript
    /// the real code produced for it (same interpreter as `vcheck replay`).
    pub fn sample_run(&mut self, component: &str, ops: &[&str]) {
        let parsed: Vec<crate::replay::Op> = ops.iter().filter_map(|o| crate::replay::Op::parse(o)).collect();
        let t = replay::run_part(component, &parsed);
        if self.samples.len() < 16 {
            self.samples.insert(0, json!({"component": component, "ops": ops, "observed_on_the_real_code_in_this_run": t}));
        }
    }

    pub fn trust(&mut self, s: &str) {
        if !self.trusted.iter().any(|x| x == s) {
            self.trusted.push(s.to_string());
        }
    }
    pub fn assume(&mut self, s: &str) {
        if !self.assumptions.iter().any(|x| x == s) {
            self.assumptions.push(s.to_string());
        }
    }
    pub fn note(&mut self, s: &str) {
        println!("note: {}", s);
        self.notes.push(s.to_string());
    }
    /// Record one sub-exploration (name + counters) in the evidence and on stdout.
    pub fn part(&mut self, name: &str, v: Value) {
        println!("part {}: {}", name, v);
        self.parts.push(json!({ "name": name, "coverage": v }));
    }
    pub fn set(&mut self, k: &str, v: Value) {
        self.coverage.insert(k.to_string(), v);
    }

    /// A state cap was hit: what was explored below it stands, the run is not exhaustive.
    pub fn cap_hit(&mut self, label: &str, cap: usize) {
        self.exhaustive = false;
        self.note(&format!("{}: search stopped early (state cap of {} states, 5000 violating edges, or the per-search wall-clock budget) - the real object has far more or far larger reachable states than the reference model; the search is NOT closed, the verdict covers the shallowest states only", label, cap));
    }

    /// Vacuity guard evaluated on the reference/model side only.
    pub fn expect(&mut self, cond: bool, what: &str) {
        if !cond {
            self.machinery(&format!("vacuity guard failed: {}", what));
        }
    }

    pub fn finish(mut self, distinct_nontrivial: u64, rule: &str) -> i32 {
        let wall = self.start.elapsed().as_secs_f64();
        let replay_dir = verif_dir().join("replays");
        let _ = std::fs::create_dir_all(&replay_dir);

        // confirm every violation by straight-line replay, twice
        let mut unlisted: Vec<(String, String, PathBuf)> = vec![];
        let mut known_hits: Vec<(String, String)> = vec![];
        let keys: Vec<String> = self.violations.keys().cloned().collect();
        for key in keys {
            let (text, rp, count) = {
                let v = &self.violations[&key];
                (v.text.clone(), v.replay.clone(), v.count)
            };
            let t1 = replay::run(&rp);
            let t2 = replay::run(&rp);
            if t1 != t2 {
                self.machinery(&format!("replay of {} is not deterministic", key));
                continue;
            }
            if let Some(obs) = &rp.observed_last {
                let same = match t1.last() {
                    Some(l) => l == obs || (l.starts_with("PANIC") && obs.starts_with("PANIC")),
                    None => false,
                };
                if !same {
                    self.machinery(&format!(
                        "replay divergence for {}: explorer saw {:?}, straight-line replay gives {:?}",
                        key,
                        obs,
                        t1.last()
                    ));
                    continue;
                }
            }
            let listed = self
                .known
                .findings
                .iter()
                .find(|(p, k, _)| *p == self.prop && *k == key)
                .map(|(_, _, t)| t.clone());
            if let Some(t) = listed {
                known_hits.push((key.clone(), if t.is_empty() { text.clone() } else { t }));
                continue;
            }
            let fname = format!("{}-{}.json", self.prop, sanitize(&key));
            let path = replay_dir.join(fname);
            let doc = json!({
                "property": self.prop,
                "key": key,
                "text": text,
                "occurrences": count,
                "replay": rp.to_json(),
                "transcript": t1,
            });
            if let Err(e) = std::fs::write(&path, serde_json::to_string_pretty(&doc).unwrap()) {
                self.machinery(&format!("cannot write replay {}: {}", path.display(), e));
            }
            unlisted.push((key.clone(), text, path));
        }

        for (key, text) in &known_hits {
            println!("KNOWN-FINDING: property={} key={} {}", self.prop, key, text);
        }
        for (i, (key, text, path)) in unlisted.iter().enumerate() {
            if i < MAX_VIOLATION_LINES {
                println!("VIOLATION property={} replay={}", self.prop, path.display());
                println!("  key={} :: {}", key, text);
            }
        }
        if self.violations_dropped > 0 {
            println!("({} further distinct violations were found but not kept: at most {} are recorded per run)", self.violations_dropped, MAX_VIOLATIONS_KEPT);
        }
        if unlisted.len() > MAX_VIOLATION_LINES {
            println!(
                "({} further violations not printed; all replays are in {})",
                unlisted.len() - MAX_VIOLATION_LINES,
                replay_dir.display()
            );
        }

        // evidence
        let mut cov = std::mem::take(&mut self.coverage);
        if self.samples.is_empty() {
            self.samples.push(json!("(no sample recorded)"));
        }
        cov.insert("evaluations".into(), json!(self.evaluations.max(1)));
        cov.insert("distinct_nontrivial".into(), json!(distinct_nontrivial));
        cov.insert("rule".into(), json!(rule));
        cov.insert("samples".into(), json!(self.samples));
        cov.insert("exhaustive".into(), json!(self.exhaustive));
        cov.insert("trusted_base".into(), json!(self.trusted));
        if self.level == "model_checking" || self.states > 0 {
            cov.insert("states".into(), json!(self.states));
            cov.insert("transitions".into(), json!(self.transitions));
            cov.insert("traces_validated_against_impl".into(), json!(self.traces_validated));
        }
        if self.level == "other" {
            let e = cov.get("explanation").cloned().unwrap_or(json!(rule));
            cov.insert("explanation".into(), e);
        }
        cov.insert("parts".into(), json!(self.parts));
        cov.insert("notes".into(), json!(self.notes));
        cov.insert(
            "known_findings_hit".into(),
            json!(known_hits.iter().map(|(k, _)| k.clone()).collect::<Vec<_>>()),
        );
        cov.insert(
            "violation_keys".into(),
            json!(unlisted.iter().map(|(k, _, _)| k.clone()).collect::<Vec<_>>()),
        );
        cov.insert("machinery_errors".into(), json!(self.machinery_errors));
        cov.insert("further_violation_keys_not_kept".into(), json!(self.violations_dropped));
        let ev = json!({
            "property_id": self.prop,
            "tier": self.tier.name(),
            "seed": self.seed,
            "level": self.level,
            "coverage": Value::Object(cov),
            "assumptions": self.assumptions,
            "wall_s": wall,
            "violations": unlisted.len(),
        });
        let evdir = verif_dir().join("evidence");
        let _ = std::fs::create_dir_all(&evdir);
        let evpath = evdir.join(format!("{}.json", self.prop));
        if let Err(e) = std::fs::write(&evpath, serde_json::to_string_pretty(&ev).unwrap()) {
            eprintln!("MACHINERY-ERROR: cannot write evidence {}: {}", evpath.display(), e);
            return 2;
        }
        println!(
            "summary property={} tier={} evaluations={} states={} transitions={} distinct_nontrivial={} violations={} known_findings={} exhaustive={} wall_s={:.2}",
            self.prop,
            self.tier.name(),
            self.evaluations,
            self.states,
            self.transitions,
            distinct_nontrivial,
            unlisted.len(),
            known_hits.len(),
            self.exhaustive,
            wall
        );
        if !unlisted.is_empty() {
            return 1;
        }
        if !self.machinery_errors.is_empty() {
            return 2;
        }
        0
    }
}

pub fn sanitize(s: &str) -> String {
    let mut o: String = s
        .chars()
        .map(|c| if c.is_ascii_alphanumeric() || c == '-' || c == '_' || c == '.' { c } else { '_' })
        .collect();
    if o.len() > 120 {
        o.truncate(120);
    }
    o
}
