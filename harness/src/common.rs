//! Shared vocabulary: the key alphabet, modifier encodings, layout objects in their three
//! forms (direct / AnyLayout by value / &AnyLayout), and the two harness-side layouts
//! (`Echo`, `Wrap`) that make stateful exploration of the real decoders cloneable.

use pc_keyboard::layouts::*;
use pc_keyboard::{DecodedKey, HandleControl, KeyCode, KeyState, KeyboardLayout, Modifiers};

use pc_keyboard::KeyCode as K;

/// The explicit list of the 124 `KeyCode` variants (declaration order).
pub const ALL_KEYS: [KeyCode; 124] = [
    K::Escape, K::F1, K::F2, K::F3, K::F4, K::F5, K::F6, K::F7, K::F8, K::F9, K::F10, K::F11, K::F12,
    K::PrintScreen, K::SysRq, K::ScrollLock, K::PauseBreak,
    K::Oem8, K::Key1, K::Key2, K::Key3, K::Key4, K::Key5, K::Key6, K::Key7, K::Key8, K::Key9, K::Key0,
    K::OemMinus, K::OemPlus, K::Backspace,
    K::Insert, K::Home, K::PageUp,
    K::NumpadLock, K::NumpadDivide, K::NumpadMultiply, K::NumpadSubtract,
    K::Tab, K::Q, K::W, K::E, K::R, K::T, K::Y, K::U, K::I, K::O, K::P, K::Oem4, K::Oem6, K::Oem5, K::Oem7,
    K::Delete, K::End, K::PageDown,
    K::Numpad7, K::Numpad8, K::Numpad9, K::NumpadAdd,
    K::CapsLock, K::A, K::S, K::D, K::F, K::G, K::H, K::J, K::K, K::L, K::Oem1, K::Oem3,
    K::Return,
    K::Numpad4, K::Numpad5, K::Numpad6,
    K::LShift, K::Z, K::X, K::C, K::V, K::B, K::N, K::M, K::OemComma, K::OemPeriod, K::Oem2, K::RShift,
    K::ArrowUp,
    K::Numpad1, K::Numpad2, K::Numpad3, K::NumpadEnter,
    K::LControl, K::LWin, K::LAlt, K::Spacebar, K::RAltGr, K::RWin, K::Apps, K::RControl,
    K::ArrowLeft, K::ArrowDown, K::ArrowRight,
    K::Numpad0, K::NumpadPeriod,
    K::Oem9, K::Oem10, K::Oem11, K::Oem12, K::Oem13,
    K::PrevTrack, K::NextTrack, K::Mute, K::Calculator, K::Play, K::Stop, K::VolumeDown, K::VolumeUp,
    K::WWWHome, K::PowerOnTestOk, K::TooManyKeys, K::RControl2, K::RAlt2,
];

pub const KEY_STATES: [KeyState; 3] = [KeyState::Down, KeyState::Up, KeyState::SingleShot];
pub const MODES: [HandleControl; 2] = [HandleControl::MapLettersToUnicode, HandleControl::Ignore];

pub fn key_name(k: KeyCode) -> String {
    format!("{:?}", k)
}
pub fn key_by_name(n: &str) -> Option<KeyCode> {
    ALL_KEYS.iter().copied().find(|k| key_name(*k) == n)
}
pub fn state_name(s: KeyState) -> &'static str {
    match s {
        KeyState::Down => "Down",
        KeyState::Up => "Up",
        KeyState::SingleShot => "SingleShot",
    }
}
pub fn state_by_name(n: &str) -> Option<KeyState> {
    match n {
        "Down" => Some(KeyState::Down),
        "Up" => Some(KeyState::Up),
        "SingleShot" => Some(KeyState::SingleShot),
        _ => None,
    }
}
pub fn mode_name(m: HandleControl) -> &'static str {
    match m {
        HandleControl::MapLettersToUnicode => "Map",
        HandleControl::Ignore => "Ignore",
    }
}
pub fn mode_by_name(n: &str) -> Option<HandleControl> {
    match n {
        "Map" => Some(HandleControl::MapLettersToUnicode),
        "Ignore" => Some(HandleControl::Ignore),
        _ => None,
    }
}
pub fn mode_bit(m: HandleControl) -> u32 {
    match m {
        HandleControl::MapLettersToUnicode => 0,
        HandleControl::Ignore => 1,
    }
}

// ---- modifier encodings -----------------------------------------------------------------
// bit 0 lshift, 1 rshift, 2 lctrl, 3 rctrl, 4 numlock, 5 capslock, 6 lalt, 7 ralt, 8 rctrl2
pub const M_LSHIFT: u16 = 1 << 0;
pub const M_RSHIFT: u16 = 1 << 1;
pub const M_LCTRL: u16 = 1 << 2;
pub const M_RCTRL: u16 = 1 << 3;
pub const M_NUM: u16 = 1 << 4;
pub const M_CAPS: u16 = 1 << 5;
pub const M_LALT: u16 = 1 << 6;
pub const M_RALT: u16 = 1 << 7;
pub const M_RCTRL2: u16 = 1 << 8;
pub const MOD_NAMES: [&str; 9] = [
    "lshift", "rshift", "lctrl", "rctrl", "numlock", "capslock", "lalt", "ralt", "rctrl2",
];
/// Modifier state of a freshly constructed decoder (NumLock on) according to the property text.
pub const M_INIT: u16 = M_NUM;

pub fn mods_from_bits(b: u16) -> Modifiers {
    // built from Default + field assignment so an added field does not break the harness build
    let mut m = Modifiers::default();
    m.lshift = b & M_LSHIFT != 0;
    m.rshift = b & M_RSHIFT != 0;
    m.lctrl = b & M_LCTRL != 0;
    m.rctrl = b & M_RCTRL != 0;
    m.numlock = b & M_NUM != 0;
    m.capslock = b & M_CAPS != 0;
    m.lalt = b & M_LALT != 0;
    m.ralt = b & M_RALT != 0;
    m.rctrl2 = b & M_RCTRL2 != 0;
    m
}
pub fn bits_from_mods(m: &Modifiers) -> u16 {
    (m.lshift as u16)
        | (m.rshift as u16) << 1
        | (m.lctrl as u16) << 2
        | (m.rctrl as u16) << 3
        | (m.numlock as u16) << 4
        | (m.capslock as u16) << 5
        | (m.lalt as u16) << 6
        | (m.ralt as u16) << 7
        | (m.rctrl2 as u16) << 8
}
pub fn mods_text(b: u16) -> String {
    let v: Vec<&str> = (0..9).filter(|i| b & (1 << i) != 0).map(|i| MOD_NAMES[i]).collect();
    if v.is_empty() {
        "-".to_string()
    } else {
        v.join("+")
    }
}

// ---- abstract modifier facts (R-PRED; written from the property text, not from the code) ----
pub fn r_shift(b: u16) -> bool {
    b & (M_LSHIFT | M_RSHIFT) != 0
}
pub fn r_ctrl(b: u16) -> bool {
    b & (M_LCTRL | M_RCTRL) != 0
}
pub fn r_alt(b: u16) -> bool {
    b & (M_LALT | M_RALT) != 0
}
pub fn r_altgr(b: u16) -> bool {
    (b & M_RALT != 0) || ((b & M_LALT != 0) && r_ctrl(b))
}
pub fn r_capslock(b: u16) -> bool {
    b & M_CAPS != 0
}
pub fn r_caps(b: u16) -> bool {
    r_shift(b) != r_capslock(b)
}
pub fn r_numlock(b: u16) -> bool {
    b & M_NUM != 0
}

// ---- layouts ------------------------------------------------------------------------------
pub const N_LAYOUTS: usize = 10;
pub const LAYOUT_NAMES: [&str; N_LAYOUTS] = [
    "us104", "uk105", "de105", "azerty", "no105", "fi_se105", "jis109", "colemak", "dvorak104", "dvp104",
];
pub const L_US: usize = 0;
pub const L_UK: usize = 1;
pub const L_DE: usize = 2;
pub const L_FR: usize = 3;
pub const L_NO: usize = 4;
pub const L_FI: usize = 5;
pub const L_JIS: usize = 6;
pub const L_COLEMAK: usize = 7;
pub const L_DVORAK: usize = 8;
pub const L_DVP: usize = 9;

pub fn layout_by_name(n: &str) -> Option<usize> {
    LAYOUT_NAMES.iter().position(|x| *x == n)
}

/// Call the real shipped layout `id` directly.
#[inline]
pub fn map_direct(id: usize, k: KeyCode, m: &Modifiers, hc: HandleControl) -> DecodedKey {
    match id {
        0 => Us104Key.map_keycode(k, m, hc),
        1 => Uk105Key.map_keycode(k, m, hc),
        2 => De105Key.map_keycode(k, m, hc),
        3 => Azerty.map_keycode(k, m, hc),
        4 => No105Key.map_keycode(k, m, hc),
        5 => FiSe105Key.map_keycode(k, m, hc),
        6 => Jis109Key.map_keycode(k, m, hc),
        7 => Colemak.map_keycode(k, m, hc),
        8 => Dvorak104Key.map_keycode(k, m, hc),
        9 => DVP104Key.map_keycode(k, m, hc),
        _ => panic!("harness: bad layout id"),
    }
}

/// Build the real `AnyLayout` variant that is *named after* layout `id`.
pub fn any_of(id: usize) -> AnyLayout {
    match id {
        0 => AnyLayout::Us104Key(Us104Key),
        1 => AnyLayout::Uk105Key(Uk105Key),
        2 => AnyLayout::De105Key(De105Key),
        3 => AnyLayout::Azerty(Azerty),
        4 => AnyLayout::No105Key(No105Key),
        5 => AnyLayout::FiSe105Key(FiSe105Key),
        6 => AnyLayout::Jis109Key(Jis109Key),
        7 => AnyLayout::Colemak(Colemak),
        8 => AnyLayout::Dvorak104Key(Dvorak104Key),
        9 => AnyLayout::DVP104Key(DVP104Key),
        _ => panic!("harness: bad layout id"),
    }
}

/// `&'static AnyLayout` for variant `id`. Leaked once per thread (thread-local cache) rather than kept
/// in a `static`, so the harness itself does not depend on `AnyLayout: Sync` (that is C20's business).
pub fn any_static(id: usize) -> &'static AnyLayout {
    thread_local! {
        static CACHE: [&'static AnyLayout; N_LAYOUTS] = {
            let mut v: Vec<&'static AnyLayout> = Vec::new();
            for i in 0..N_LAYOUTS {
                v.push(Box::leak(Box::new(any_of(i))));
            }
            [v[0], v[1], v[2], v[3], v[4], v[5], v[6], v[7], v[8], v[9]]
        };
    }
    CACHE.with(|c| c[id])
}

pub const FORM_NAMES: [&str; 3] = ["direct", "any", "anyref"];

/// Evaluate layout `id` through one of its three public forms.
#[inline]
pub fn map_form(form: usize, id: usize, k: KeyCode, m: &Modifiers, hc: HandleControl) -> DecodedKey {
    match form {
        0 => map_direct(id, k, m, hc),
        1 => any_static(id).map_keycode(k, m, hc),
        2 => {
            let r: &AnyLayout = any_static(id);
            <&AnyLayout as KeyboardLayout>::map_keycode(&r, k, m, hc)
        }
        _ => panic!("harness: bad form"),
    }
}

/// Cloneable layout delegating to the real shipped layout `id`.
#[derive(Debug, Clone, PartialEq, Eq, Hash)]
pub struct Wrap(pub u8);
impl KeyboardLayout for Wrap {
    fn map_keycode(&self, k: KeyCode, m: &Modifiers, hc: HandleControl) -> DecodedKey {
        map_direct(self.0 as usize, k, m, hc)
    }
}

/// Pure recording layout: the returned character encodes exactly which (key, 9 modifier bits,
/// mode, layout tag) the decoder consulted. U+10000 + 18 bits is always a valid scalar value.
#[derive(Debug, Clone, PartialEq, Eq, Hash)]
pub struct Echo(pub u8);
pub fn echo_encode(tag: u8, k: KeyCode, mods: u16, hc: HandleControl) -> char {
    let v: u32 = ((tag as u32 & 1) << 17) | (mode_bit(hc) << 16) | ((mods as u32 & 0x1FF) << 7) | (k as u8 as u32 & 0x7F);
    char::from_u32(0x10000 + v).expect("echo scalar")
}
pub fn echo_text(c: char) -> String {
    let v = c as u32 - 0x10000;
    let k = (v & 0x7F) as usize;
    let mods = ((v >> 7) & 0x1FF) as u16;
    let mode = if (v >> 16) & 1 == 0 { "Map" } else { "Ignore" };
    let kn = if k < ALL_KEYS.len() { key_name(ALL_KEYS[k]) } else { format!("key#{}", k) };
    format!("Echo[tag={} key={} mods={} mode={}]", (v >> 17) & 1, kn, mods_text(mods), mode)
}
impl KeyboardLayout for Echo {
    fn map_keycode(&self, k: KeyCode, m: &Modifiers, hc: HandleControl) -> DecodedKey {
        DecodedKey::Unicode(echo_encode(self.0, k, bits_from_mods(m), hc))
    }
}

/// A layout that counts how often it is consulted and answers with the running count (U+E0000 + n): the n-th
/// consultation of the object returns a value no other consultation returns. Used by C14 to show that the decoder
/// consults its layout exactly once per ordinary key press and never otherwise (a layout is free to keep state behind
/// `&self`, e.g. a pending dead key; an extra consultation whose answer is thrown away would disturb it).
#[derive(Debug)]
pub struct Count(pub std::cell::Cell<u32>);
impl KeyboardLayout for Count {
    fn map_keycode(&self, _k: KeyCode, _m: &Modifiers, _hc: HandleControl) -> DecodedKey {
        let n = self.0.get() + 1;
        self.0.set(n);
        DecodedKey::Unicode(char::from_u32(0xE0000 + n).unwrap_or('\u{E0000}'))
    }
}

pub fn dk_text(d: &DecodedKey) -> String {
    match d {
        DecodedKey::Unicode(c) if (*c as u32) >= 0x10000 && (*c as u32) < 0x50000 => echo_text(*c),
        DecodedKey::Unicode(c) => format!("Unicode({:?} U+{:04X})", c, *c as u32),
        DecodedKey::RawKey(k) => format!("RawKey({:?})", k),
    }
}

/// Number of hardware threads to use for sweeps.
pub fn n_threads() -> usize {
    std::env::var("VERIF_THREADS")
        .ok()
        .and_then(|s| s.parse().ok())
        .unwrap_or_else(|| std::thread::available_parallelism().map(|n| n.get()).unwrap_or(4))
        .max(1)
}

/// Run `f(chunk_index)` for every chunk in 0..n on all cores; results in chunk order.
pub fn par_chunks<T: Send, F: Fn(usize) -> T + Sync>(n: usize, f: F) -> Vec<T> {
    use std::sync::atomic::{AtomicUsize, Ordering};
    use std::sync::Mutex;
    let next = AtomicUsize::new(0);
    let out: Mutex<Vec<(usize, T)>> = Mutex::new(Vec::with_capacity(n));
    std::thread::scope(|s| {
        for _ in 0..n_threads().min(n.max(1)) {
            s.spawn(|| loop {
                let i = next.fetch_add(1, Ordering::Relaxed);
                if i >= n {
                    break;
                }
                let r = f(i);
                out.lock().unwrap().push((i, r));
            });
        }
    });
    let mut v = out.into_inner().unwrap();
    v.sort_by_key(|x| x.0);
    v.into_iter().map(|x| x.1).collect()
}

/// Run subject code under catch_unwind; a panic becomes an `Err` carrying its message.
pub fn guarded<T>(f: impl FnOnce() -> T) -> Result<T, String> {
    std::panic::catch_unwind(std::panic::AssertUnwindSafe(f)).map_err(|e| {
        if let Some(s) = e.downcast_ref::<&str>() {
            format!("PANIC({})", s)
        } else if let Some(s) = e.downcast_ref::<String>() {
            format!("PANIC({})", s)
        } else {
            "PANIC(?)".to_string()
        }
    })
}
