//! vharness: bounded-exhaustive / explicit-state exploration of the real pc-keyboard code.
//! usage: vharness <C01..C20> <quick|thorough> | vharness replay <file> | vharness dump-layouts

#![allow(dead_code, unused_mut, unused_assignments)]

mod common;
mod explore;
mod props;
mod refs;
mod replay;
mod report;

use report::{Ctx, Tier};

pub fn repo_dir() -> String {
    std::env::var("VERIF_REPO").unwrap_or_else(|_| "/repo".to_string())
}

fn level_of(id: &str) -> &'static str {
    match id {
        "C01" | "C02" | "C04" | "C06" | "C07" | "C13" | "C14" | "C18" => "model_checking",
        "C05" => "fault_enumeration",
        "C20" => "other",
        _ => "exploration",
    }
}

fn main() {
    // silence the default panic printer: panics of the subject are caught and reported as results
    std::panic::set_hook(Box::new(|_| {}));
    let args: Vec<String> = std::env::args().collect();
    if args.len() < 2 {
        eprintln!("usage: vharness <Cnn> <quick|thorough> | replay <file>");
        std::process::exit(2);
    }
    if args[1] == "replay" {
        std::process::exit(replay::replay_file(args.get(2).map(|s| s.as_str()).unwrap_or("")));
    }
    if args[1] == "dump-layouts" {
        props::dump::dump();
        return;
    }
    if args[1] == "c08-worker" {
        std::process::exit(props::safety::worker(&args[2], &args[3]));
    }
    let id = args[1].to_uppercase();
    let tier = match args.get(2).map(|s| s.as_str()).or(std::env::var("VERIF_TIER").ok().as_deref().map(|_| "")) {
        Some("thorough") => Tier::Thorough,
        _ => match std::env::var("VERIF_TIER").ok().as_deref() {
            Some("thorough") if args.get(2).is_none() => Tier::Thorough,
            _ => Tier::Quick,
        },
    };
    if matches!(tier, Tier::Thorough) {
        explore::BFS_BUDGET_S.store(300, std::sync::atomic::Ordering::Relaxed);
    }
    let mut ctx = Ctx::new(&id, tier, level_of(&id));
    let res = std::panic::catch_unwind(std::panic::AssertUnwindSafe(|| -> Option<(u64, String)> {
        Some(match id.as_str() {
            "C01" => props::scan::c01(&mut ctx),
            "C02" => props::scan::c02(&mut ctx),
            "C03" => props::layouts::c03(&mut ctx),
            "C09" => props::layouts::c09(&mut ctx),
            "C10" => props::layouts::c10(&mut ctx),
            "C11" => props::layouts::c11(&mut ctx),
            "C12" => props::layouts::c12(&mut ctx),
            "C15" => props::layouts::c15(&mut ctx),
            "C16" => props::layouts::c16(&mut ctx),
            "C17" => props::layouts::c17(&mut ctx),
            "C04" => props::events::c04(&mut ctx),
            "C14" => props::events::c14(&mut ctx),
            "C08" => props::safety::c08(&mut ctx),
            "C13" => props::xlate::c13(&mut ctx),
            "C05" => props::frame::c05(&mut ctx),
            "C06" => props::frame::c06(&mut ctx),
            "C07" => props::scan::c07(&mut ctx),
            "C18" => props::compose::c18(&mut ctx),
            "C19" => props::scan::c19(&mut ctx),
            _ => return None,
        })
    }));
    match res {
        Ok(Some((nt, rule))) => {
            props::neutral::check(&mut ctx, &id);
            std::process::exit(ctx.finish(nt, &rule))
        }
        Ok(None) => {
            eprintln!("unknown property {}", id);
            std::process::exit(2);
        }
        Err(e) => {
            eprintln!("MACHINERY-ERROR: harness panicked: {}", replay::panic_text(e));
            std::process::exit(2);
        }
    }
}
