//! Straight-line replay of a recorded operation list against the real code, without any
//! explorer.  Used (a) to confirm every violation twice before it is reported, (b) by
//! `vcheck replay <file>`.

use crate::common::*;
use pc_keyboard::layouts::AnyLayout;
use pc_keyboard::{
    DecodedKey, Error, EventDecoder, HandleControl, KeyCode, KeyEvent, KeyState, Keyboard, KeyboardLayout,
    Ps2Decoder, ScancodeSet, ScancodeSet1, ScancodeSet2,
};
use serde_json::{json, Value};
use std::panic::{catch_unwind, AssertUnwindSafe};

#[derive(Clone, Debug, PartialEq, Eq)]
pub enum Op {
    Byte(u8),
    Bit(bool),
    Word(u16),
    Clear,
    Key(KeyCode, KeyState),
    Ctrl(HandleControl),
    Layout(u8),
    Map(KeyCode, u16, HandleControl),
    Mods,
    /// add_byte and, when it yields an event, pass it on to process_keyevent (end-to-end typing)
    Type(u8),
    /// as Type, but over the bit-serial path after a line glitch: three stray bits (1,0,1), clear() (the documented
    /// timeout recovery), then the 11 bits of the valid frame of this byte through add_bit
    TypeBits(u8),
    /// as Type, but the byte arrives as a whole 11-bit word through add_word
    TypeWord(u8),
}

impl Op {
    pub fn text(&self) -> String {
        match self {
            Op::Byte(b) => format!("byte:{:02X}", b),
            Op::Bit(b) => format!("bit:{}", *b as u8),
            Op::Word(w) => format!("word:{:04X}", w),
            Op::Clear => "clear".into(),
            Op::Key(k, s) => format!("key:{}:{}", key_name(*k), state_name(*s)),
            Op::Ctrl(m) => format!("ctrl:{}", mode_name(*m)),
            Op::Layout(i) => format!("layout:{}", i),
            Op::Map(k, m, hc) => format!("map:{}:{}:{}", key_name(*k), m, mode_name(*hc)),
            Op::Mods => "mods".into(),
            Op::Type(b) => format!("type:{:02X}", b),
            Op::TypeBits(b) => format!("typebits:{:02X}", b),
            Op::TypeWord(b) => format!("typeword:{:02X}", b),
        }
    }
    pub fn parse(s: &str) -> Option<Op> {
        let p: Vec<&str> = s.split(':').collect();
        Some(match p[0] {
            "byte" => Op::Byte(u8::from_str_radix(p.get(1)?, 16).ok()?),
            "bit" => Op::Bit(*p.get(1)? == "1"),
            "word" => Op::Word(u16::from_str_radix(p.get(1)?, 16).ok()?),
            "clear" => Op::Clear,
            "key" => Op::Key(key_by_name(p.get(1)?)?, state_by_name(p.get(2)?)?),
            "ctrl" => Op::Ctrl(mode_by_name(p.get(1)?)?),
            "layout" => Op::Layout(p.get(1)?.parse().ok()?),
            "map" => Op::Map(key_by_name(p.get(1)?)?, p.get(2)?.parse().ok()?, mode_by_name(p.get(3)?)?),
            "mods" => Op::Mods,
            "type" => Op::Type(u8::from_str_radix(p.get(1)?, 16).ok()?),
            "typebits" => Op::TypeBits(u8::from_str_radix(p.get(1)?, 16).ok()?),
            "typeword" => Op::TypeWord(u8::from_str_radix(p.get(1)?, 16).ok()?),
            _ => return None,
        })
    }
}

#[derive(Clone, Debug)]
pub struct Replay {
    pub parts: Vec<(String, Vec<Op>)>,
    pub expected: String,
    /// what the explorer saw as the output of the very last op (same formatting as `run`)
    pub observed_last: Option<String>,
}

impl Replay {
    pub fn one(component: &str, ops: Vec<Op>, expected: &str, observed_last: Option<String>) -> Replay {
        Replay { parts: vec![(component.to_string(), ops)], expected: expected.to_string(), observed_last }
    }
    pub fn to_json(&self) -> Value {
        json!({
            "parts": self.parts.iter().map(|(c, ops)| json!({
                "component": c,
                "ops": ops.iter().map(|o| o.text()).collect::<Vec<_>>(),
            })).collect::<Vec<_>>(),
            "expected": self.expected,
            "observed_last": self.observed_last,
        })
    }
    pub fn from_json(v: &Value) -> Option<Replay> {
        let mut parts = vec![];
        for p in v.get("parts")?.as_array()? {
            let c = p.get("component")?.as_str()?.to_string();
            let mut ops = vec![];
            for o in p.get("ops")?.as_array()? {
                ops.push(Op::parse(o.as_str()?)?);
            }
            parts.push((c, ops));
        }
        Some(Replay {
            parts,
            expected: v.get("expected").and_then(|x| x.as_str()).unwrap_or("").to_string(),
            observed_last: v.get("observed_last").and_then(|x| x.as_str()).map(|s| s.to_string()),
        })
    }
}

pub fn fmt_ev(r: &Result<Option<KeyEvent>, Error>) -> String {
    match r {
        Ok(None) => "Ok(None)".into(),
        Ok(Some(e)) => format!("Ok({:?} {:?})", e.code, e.state),
        Err(e) => format!("Err({:?})", e),
    }
}
pub fn fmt_dk(r: &Option<DecodedKey>) -> String {
    match r {
        None => "None".into(),
        Some(d) => format!("Some({})", dk_text(d)),
    }
}
pub fn fmt_byte(r: &Result<u8, Error>) -> String {
    match r {
        Ok(b) => format!("Ok(0x{:02X})", b),
        Err(e) => format!("Err({:?})", e),
    }
}
pub fn fmt_optbyte(r: &Result<Option<u8>, Error>) -> String {
    match r {
        Ok(None) => "Ok(None)".into(),
        Ok(Some(b)) => format!("Ok(Some(0x{:02X}))", b),
        Err(e) => format!("Err({:?})", e),
    }
}

pub fn panic_text(e: Box<dyn std::any::Any + Send>) -> String {
    if let Some(s) = e.downcast_ref::<&str>() {
        format!("PANIC({})", s)
    } else if let Some(s) = e.downcast_ref::<String>() {
        format!("PANIC({})", s)
    } else {
        "PANIC(?)".to_string()
    }
}

/// Run a closure, turning a panic into a transcript line.
pub fn guard<F: FnOnce() -> String>(f: F) -> String {
    match catch_unwind(AssertUnwindSafe(f)) {
        Ok(s) => s,
        Err(e) => panic_text(e),
    }
}

pub trait HLayout: KeyboardLayout + Sized {
    fn make(id: u8) -> Self;
}
impl HLayout for Echo {
    fn make(id: u8) -> Self {
        Echo(id)
    }
}
impl HLayout for Wrap {
    fn make(id: u8) -> Self {
        Wrap(id)
    }
}
impl HLayout for Count {
    fn make(_id: u8) -> Self {
        Count(std::cell::Cell::new(0))
    }
}
impl HLayout for AnyLayout {
    fn make(id: u8) -> Self {
        any_of(id as usize)
    }
}
impl HLayout for &'static AnyLayout {
    fn make(id: u8) -> Self {
        any_static(id as usize)
    }
}

fn run_scancode<S: ScancodeSet>(mut s: S, ops: &[Op]) -> Vec<String> {
    ops.iter()
        .map(|op| match op {
            Op::Byte(b) => guard(|| fmt_ev(&s.advance_state(*b))),
            o => format!("(op {} not applicable)", o.text()),
        })
        .collect()
}

fn run_ps2(ops: &[Op]) -> Vec<String> {
    run_ps2_from(Ps2Decoder::new(), ops)
}

fn run_ps2_from(mut d: Ps2Decoder, ops: &[Op]) -> Vec<String> {
    ops.iter()
        .map(|op| match op {
            Op::Bit(b) => guard(|| fmt_optbyte(&d.add_bit(*b))),
            Op::Word(w) => guard(|| fmt_byte(&d.add_word(*w))),
            Op::Clear => guard(|| {
                d.clear();
                "()".into()
            }),
            o => format!("(op {} not applicable)", o.text()),
        })
        .collect()
}

fn run_ed<L: HLayout>(id: u8, mode: HandleControl, ops: &[Op]) -> Vec<String> {
    let mut d = EventDecoder::new(L::make(id), mode);
    ops.iter()
        .map(|op| match op {
            Op::Key(k, s) => guard(|| fmt_dk(&d.process_keyevent(KeyEvent::new(*k, *s)))),
            Op::Ctrl(m) => guard(|| {
                d.set_ctrl_handling(*m);
                "()".into()
            }),
            Op::Layout(i) => guard(|| {
                let _ = d.change_layout(L::make(*i));
                "()".into()
            }),
            o => format!("(op {} not applicable)", o.text()),
        })
        .collect()
}

fn run_kb<L: HLayout, S: ScancodeSet>(set: S, id: u8, mode: HandleControl, ops: &[Op]) -> Vec<String> {
    let mut k = Keyboard::new(set, L::make(id), mode);
    ops.iter()
        .map(|op| match op {
            Op::Byte(b) => guard(|| fmt_ev(&k.add_byte(*b))),
            Op::Bit(b) => guard(|| fmt_ev(&k.add_bit(*b))),
            Op::Word(w) => guard(|| fmt_ev(&k.add_word(*w))),
            Op::Clear => guard(|| {
                k.clear();
                "()".into()
            }),
            Op::Key(kc, s) => guard(|| fmt_dk(&k.process_keyevent(KeyEvent::new(*kc, *s)))),
            Op::Ctrl(m) => guard(|| {
                k.set_ctrl_handling(*m);
                "()".into()
            }),
            Op::Mods => guard(|| {
                format!("mods={} mode={}", mods_text(bits_from_mods(k.get_modifiers())), mode_name(k.get_ctrl_handling()))
            }),
            Op::Type(b) => guard(|| match k.add_byte(*b) {
                Ok(Some(ev)) => {
                    let t = format!("{:?} {:?}", ev.code, ev.state);
                    format!("{} -> {}", t, fmt_dk(&k.process_keyevent(ev)))
                }
                other => fmt_ev(&other),
            }),
            Op::TypeWord(b) => guard(|| match k.add_word(crate::props::frame::encode(*b)) {
                Ok(Some(ev)) => {
                    let t = format!("{:?} {:?}", ev.code, ev.state);
                    format!("{} -> {}", t, fmt_dk(&k.process_keyevent(ev)))
                }
                other => fmt_ev(&other),
            }),
            Op::TypeBits(b) => guard(|| {
                let r = type_bits(&mut k, *b);
                match r {
                    Ok(Some(ev)) => {
                        let t = format!("{:?} {:?}", ev.code, ev.state);
                        format!("{} -> {}", t, fmt_dk(&k.process_keyevent(ev)))
                    }
                    other => fmt_ev(&other),
                }
            }),
            o => format!("(op {} not applicable)", o.text()),
        })
        .collect()
}

/// glitch (1,0,1) + clear(), then the valid frame of `b` bit by bit; the result of the 11th bit
pub fn type_bits<L: KeyboardLayout, S: ScancodeSet>(k: &mut Keyboard<L, S>, b: u8) -> Result<Option<KeyEvent>, Error> {
    for x in [true, false, true] {
        let _ = k.add_bit(x);
    }
    k.clear();
    let w = crate::props::frame::encode(b);
    let mut last = Ok(None);
    for i in 0..11 {
        last = k.add_bit(w & (1 << i) != 0);
        if i < 10 && !matches!(last, Ok(None)) {
            return last;
        }
    }
    last
}

fn run_layout(form: usize, id: usize, ops: &[Op]) -> Vec<String> {
    ops.iter()
        .map(|op| match op {
            Op::Map(k, m, hc) => guard(|| dk_text(&map_form(form, id, *k, &mods_from_bits(*m), *hc))),
            o => format!("(op {} not applicable)", o.text()),
        })
        .collect()
}

/// layout spec "echo-<tag>" | "wrap-<name>" | "any-<name>" | "anyref-<name>"
fn parse_lspec(s: &str) -> Option<(&str, u8)> {
    let (kind, rest) = s.split_once('-')?;
    let id = match kind {
        "echo" | "count" => rest.parse().ok()?,
        _ => layout_by_name(rest)? as u8,
    };
    Some((kind, id))
}

pub fn run_part(component: &str, ops: &[Op]) -> Vec<String> {
    let p: Vec<&str> = component.split(':').collect();
    let bad = || vec![format!("(unknown component {})", component)];
    match p[0] {
        // hook neutrality: re-run both builds of the probe on one group and report the first differing item
        "neutral" => vec![crate::props::neutral::first_difference(p.get(1).copied().unwrap_or(""), &p[2.min(p.len())..].join(":"))],
        "set1" => run_scancode(ScancodeSet1::new(), ops),
        "set2" => run_scancode(ScancodeSet2::new(), ops),
        "set1-default" => run_scancode(ScancodeSet1::default(), ops),
        "set2-default" => run_scancode(ScancodeSet2::default(), ops),
        "ps2-default" => run_ps2_from(Ps2Decoder::default(), ops),
        "kbloop" | "kbnoisy" => {
            let noisy = p[0] == "kbnoisy";
            // bytes go to add_byte and every event straight on to process_keyevent (the README loop); the transcript
            // shows the add_byte results
            fn go<S: ScancodeSet>(set: S, ops: &[Op], noisy: bool) -> Vec<String> {
                let mut k = Keyboard::new(set, Echo(0), HandleControl::MapLettersToUnicode);
                ops.iter()
                    .map(|op| match op {
                        Op::Byte(b) => guard(|| {
                            if noisy {
                                // a line glitch and the driver's timeout recovery before every byte
                                k.clear();
                                let _ = k.add_bit(false);
                                k.clear();
                            }
                            let r = k.add_byte(*b);
                            if let Ok(Some(ev)) = &r {
                                let _ = k.process_keyevent(ev.clone());
                            }
                            fmt_ev(&r)
                        }),
                        o => format!("(op {} not applicable)", o.text()),
                    })
                    .collect()
            }
            match p.get(2).copied() {
                Some("set1") => go(ScancodeSet1::new(), ops, noisy),
                _ => go(ScancodeSet2::new(), ops, noisy),
            }
        }
        "ps2" => run_ps2(ops),
        "ed" => {
            let (Some(ls), Some(mode)) = (p.get(1).and_then(|s| parse_lspec(s)), p.get(2).and_then(|s| mode_by_name(s)))
            else {
                return bad();
            };
            match ls.0 {
                "echo" => run_ed::<Echo>(ls.1, mode, ops),
                "count" => run_ed::<Count>(ls.1, mode, ops),
                "wrap" => run_ed::<Wrap>(ls.1, mode, ops),
                "any" => run_ed::<AnyLayout>(ls.1, mode, ops),
                "anyref" => run_ed::<&'static AnyLayout>(ls.1, mode, ops),
                _ => bad(),
            }
        }
        "kb" => {
            let (Some(ls), Some(set), Some(mode)) =
                (p.get(1).and_then(|s| parse_lspec(s)), p.get(2), p.get(3).and_then(|s| mode_by_name(s)))
            else {
                return bad();
            };
            macro_rules! go {
                ($l:ty) => {
                    match *set {
                        "set1" => run_kb::<$l, _>(ScancodeSet1::new(), ls.1, mode, ops),
                        "set2" => run_kb::<$l, _>(ScancodeSet2::new(), ls.1, mode, ops),
                        _ => bad(),
                    }
                };
            }
            match ls.0 {
                "echo" => go!(Echo),
                "wrap" => go!(Wrap),
                "any" => go!(AnyLayout),
                "anyref" => go!(&'static AnyLayout),
                _ => bad(),
            }
        }
        "layout" => {
            let (Some(form), Some(id)) = (
                p.get(1).and_then(|f| FORM_NAMES.iter().position(|x| x == f)),
                p.get(2).and_then(|n| layout_by_name(n)),
            ) else {
                return bad();
            };
            run_layout(form, id, ops)
        }
        _ => bad(),
    }
}

/// Full transcript: one line per op, parts concatenated.
pub fn run(r: &Replay) -> Vec<String> {
    let mut out = vec![];
    for (c, ops) in &r.parts {
        out.extend(run_part(c, ops));
    }
    out
}

/// `vcheck replay <file>`: exit 1 if the recorded violation reproduces, 0 if not, 2 on bad file.
pub fn replay_file(path: &str) -> i32 {
    let Ok(s) = std::fs::read_to_string(path) else {
        eprintln!("cannot read {}", path);
        return 2;
    };
    let Ok(v) = serde_json::from_str::<Value>(&s) else {
        eprintln!("not JSON: {}", path);
        return 2;
    };
    let Some(r) = v.get("replay").and_then(Replay::from_json) else {
        eprintln!("no replay section in {}", path);
        return 2;
    };
    println!("property: {}", v.get("property").and_then(|x| x.as_str()).unwrap_or("?"));
    println!("key:      {}", v.get("key").and_then(|x| x.as_str()).unwrap_or("?"));
    println!("expected: {}", r.expected);
    let t = run(&r);
    let mut i = 0;
    for (c, ops) in &r.parts {
        println!("component {}", c);
        for op in ops {
            println!("  {:<28} => {}", op.text(), t[i]);
            i += 1;
        }
    }
    let recorded: Option<Vec<String>> = v
        .get("transcript")
        .and_then(|x| x.as_array())
        .map(|a| a.iter().filter_map(|x| x.as_str().map(|s| s.to_string())).collect());
    let same = match (&recorded, &r.observed_last) {
        (Some(rec), _) => *rec == t,
        (None, Some(o)) => t.last() == Some(o),
        _ => false,
    };
    if same {
        println!("REPRODUCED: the real code still produces the recorded (violating) transcript");
        1
    } else {
        println!("NOT REPRODUCED: the real code no longer produces the recorded transcript");
        0
    }
}
