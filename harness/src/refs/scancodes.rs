//! R-SET1 / R-SET2 / R-AUTO1 / R-AUTO2 / R-8042: hand-written from the IBM/Microsoft scan code
//! tables (= the README conversion table with its two self-contradictory rows corrected) and the
//! i8042 translation table (IBM PS/2 Technical Reference; Brouwer, "Keyboard scancodes" §10).
//! Nothing in this file is derived from the crate's code.

use pc_keyboard::KeyCode as K;
use pc_keyboard::{KeyCode, KeyState};

pub const PLAIN: u8 = 0;
pub const E0: u8 = 1;
pub const E1: u8 = 2;
pub const CTX_NAMES: [&str; 3] = ["plain", "E0", "E1"];

/// (key, Set 1 (table, code), Set 2 (table, code)); `None` = the set has no code for the key.
pub const TABLE: &[(KeyCode, Option<(u8, u8)>, Option<(u8, u8)>)] = &[
    (K::Escape, Some((PLAIN, 0x01)), Some((PLAIN, 0x76))),
    (K::F1, Some((PLAIN, 0x3B)), Some((PLAIN, 0x05))),
    (K::F2, Some((PLAIN, 0x3C)), Some((PLAIN, 0x06))),
    (K::F3, Some((PLAIN, 0x3D)), Some((PLAIN, 0x04))),
    (K::F4, Some((PLAIN, 0x3E)), Some((PLAIN, 0x0C))),
    (K::F5, Some((PLAIN, 0x3F)), Some((PLAIN, 0x03))),
    (K::F6, Some((PLAIN, 0x40)), Some((PLAIN, 0x0B))),
    (K::F7, Some((PLAIN, 0x41)), Some((PLAIN, 0x83))),
    (K::F8, Some((PLAIN, 0x42)), Some((PLAIN, 0x0A))),
    (K::F9, Some((PLAIN, 0x43)), Some((PLAIN, 0x01))),
    (K::F10, Some((PLAIN, 0x44)), Some((PLAIN, 0x09))),
    (K::F11, Some((PLAIN, 0x57)), Some((PLAIN, 0x78))),
    (K::F12, Some((PLAIN, 0x58)), Some((PLAIN, 0x07))),
    (K::PrintScreen, Some((E0, 0x37)), Some((E0, 0x7C))),
    (K::SysRq, Some((PLAIN, 0x54)), Some((PLAIN, 0x7F))),
    (K::ScrollLock, Some((PLAIN, 0x46)), Some((PLAIN, 0x7E))),
    (K::PauseBreak, None, None),
    (K::Oem8, Some((PLAIN, 0x29)), Some((PLAIN, 0x0E))),
    (K::Key1, Some((PLAIN, 0x02)), Some((PLAIN, 0x16))),
    (K::Key2, Some((PLAIN, 0x03)), Some((PLAIN, 0x1E))),
    (K::Key3, Some((PLAIN, 0x04)), Some((PLAIN, 0x26))),
    (K::Key4, Some((PLAIN, 0x05)), Some((PLAIN, 0x25))),
    (K::Key5, Some((PLAIN, 0x06)), Some((PLAIN, 0x2E))),
    (K::Key6, Some((PLAIN, 0x07)), Some((PLAIN, 0x36))),
    (K::Key7, Some((PLAIN, 0x08)), Some((PLAIN, 0x3D))),
    (K::Key8, Some((PLAIN, 0x09)), Some((PLAIN, 0x3E))),
    (K::Key9, Some((PLAIN, 0x0A)), Some((PLAIN, 0x46))),
    (K::Key0, Some((PLAIN, 0x0B)), Some((PLAIN, 0x45))),
    (K::OemMinus, Some((PLAIN, 0x0C)), Some((PLAIN, 0x4E))),
    (K::OemPlus, Some((PLAIN, 0x0D)), Some((PLAIN, 0x55))),
    (K::Backspace, Some((PLAIN, 0x0E)), Some((PLAIN, 0x66))),
    (K::Insert, Some((E0, 0x52)), Some((E0, 0x70))),
    (K::Home, Some((E0, 0x47)), Some((E0, 0x6C))),
    (K::PageUp, Some((E0, 0x49)), Some((E0, 0x7D))),
    (K::NumpadLock, Some((PLAIN, 0x45)), Some((PLAIN, 0x77))),
    (K::NumpadDivide, Some((E0, 0x35)), Some((E0, 0x4A))),
    (K::NumpadMultiply, Some((PLAIN, 0x37)), Some((PLAIN, 0x7C))),
    (K::NumpadSubtract, Some((PLAIN, 0x4A)), Some((PLAIN, 0x7B))),
    (K::Tab, Some((PLAIN, 0x0F)), Some((PLAIN, 0x0D))),
    (K::Q, Some((PLAIN, 0x10)), Some((PLAIN, 0x15))),
    (K::W, Some((PLAIN, 0x11)), Some((PLAIN, 0x1D))),
    (K::E, Some((PLAIN, 0x12)), Some((PLAIN, 0x24))),
    (K::R, Some((PLAIN, 0x13)), Some((PLAIN, 0x2D))),
    (K::T, Some((PLAIN, 0x14)), Some((PLAIN, 0x2C))),
    (K::Y, Some((PLAIN, 0x15)), Some((PLAIN, 0x35))),
    (K::U, Some((PLAIN, 0x16)), Some((PLAIN, 0x3C))),
    (K::I, Some((PLAIN, 0x17)), Some((PLAIN, 0x43))),
    (K::O, Some((PLAIN, 0x18)), Some((PLAIN, 0x44))),
    (K::P, Some((PLAIN, 0x19)), Some((PLAIN, 0x4D))),
    (K::Oem4, Some((PLAIN, 0x1A)), Some((PLAIN, 0x54))),
    (K::Oem6, Some((PLAIN, 0x1B)), Some((PLAIN, 0x5B))),
    (K::Oem5, Some((PLAIN, 0x56)), Some((PLAIN, 0x61))),
    (K::Oem7, Some((PLAIN, 0x2B)), Some((PLAIN, 0x5D))),
    (K::Delete, Some((E0, 0x53)), Some((E0, 0x71))),
    (K::End, Some((E0, 0x4F)), Some((E0, 0x69))),
    (K::PageDown, Some((E0, 0x51)), Some((E0, 0x7A))),
    (K::Numpad7, Some((PLAIN, 0x47)), Some((PLAIN, 0x6C))),
    (K::Numpad8, Some((PLAIN, 0x48)), Some((PLAIN, 0x75))),
    (K::Numpad9, Some((PLAIN, 0x49)), Some((PLAIN, 0x7D))),
    (K::NumpadAdd, Some((PLAIN, 0x4E)), Some((PLAIN, 0x79))),
    (K::CapsLock, Some((PLAIN, 0x3A)), Some((PLAIN, 0x58))),
    (K::A, Some((PLAIN, 0x1E)), Some((PLAIN, 0x1C))),
    (K::S, Some((PLAIN, 0x1F)), Some((PLAIN, 0x1B))),
    (K::D, Some((PLAIN, 0x20)), Some((PLAIN, 0x23))),
    (K::F, Some((PLAIN, 0x21)), Some((PLAIN, 0x2B))),
    (K::G, Some((PLAIN, 0x22)), Some((PLAIN, 0x34))),
    (K::H, Some((PLAIN, 0x23)), Some((PLAIN, 0x33))),
    (K::J, Some((PLAIN, 0x24)), Some((PLAIN, 0x3B))),
    (K::K, Some((PLAIN, 0x25)), Some((PLAIN, 0x42))),
    (K::L, Some((PLAIN, 0x26)), Some((PLAIN, 0x4B))),
    (K::Oem1, Some((PLAIN, 0x27)), Some((PLAIN, 0x4C))),
    (K::Oem3, Some((PLAIN, 0x28)), Some((PLAIN, 0x52))),
    (K::Return, Some((PLAIN, 0x1C)), Some((PLAIN, 0x5A))),
    (K::Numpad4, Some((PLAIN, 0x4B)), Some((PLAIN, 0x6B))),
    (K::Numpad5, Some((PLAIN, 0x4C)), Some((PLAIN, 0x73))),
    (K::Numpad6, Some((PLAIN, 0x4D)), Some((PLAIN, 0x74))),
    (K::LShift, Some((PLAIN, 0x2A)), Some((PLAIN, 0x12))),
    (K::Z, Some((PLAIN, 0x2C)), Some((PLAIN, 0x1A))),
    (K::X, Some((PLAIN, 0x2D)), Some((PLAIN, 0x22))),
    (K::C, Some((PLAIN, 0x2E)), Some((PLAIN, 0x21))),
    (K::V, Some((PLAIN, 0x2F)), Some((PLAIN, 0x2A))),
    (K::B, Some((PLAIN, 0x30)), Some((PLAIN, 0x32))),
    (K::N, Some((PLAIN, 0x31)), Some((PLAIN, 0x31))),
    (K::M, Some((PLAIN, 0x32)), Some((PLAIN, 0x3A))),
    (K::OemComma, Some((PLAIN, 0x33)), Some((PLAIN, 0x41))),
    (K::OemPeriod, Some((PLAIN, 0x34)), Some((PLAIN, 0x49))),
    (K::Oem2, Some((PLAIN, 0x35)), Some((PLAIN, 0x4A))),
    (K::RShift, Some((PLAIN, 0x36)), Some((PLAIN, 0x59))),
    (K::ArrowUp, Some((E0, 0x48)), Some((E0, 0x75))),
    (K::Numpad1, Some((PLAIN, 0x4F)), Some((PLAIN, 0x69))),
    (K::Numpad2, Some((PLAIN, 0x50)), Some((PLAIN, 0x72))),
    (K::Numpad3, Some((PLAIN, 0x51)), Some((PLAIN, 0x7A))),
    // README prints 0xE075 for NumpadEnter's Set 2 code (a copy of the ArrowUp row); IBM: E0 5A
    (K::NumpadEnter, Some((E0, 0x1C)), Some((E0, 0x5A))),
    (K::LControl, Some((PLAIN, 0x1D)), Some((PLAIN, 0x14))),
    (K::LWin, Some((E0, 0x5B)), Some((E0, 0x1F))),
    (K::LAlt, Some((PLAIN, 0x38)), Some((PLAIN, 0x11))),
    (K::Spacebar, Some((PLAIN, 0x39)), Some((PLAIN, 0x29))),
    (K::RAltGr, Some((E0, 0x38)), Some((E0, 0x11))),
    (K::RWin, Some((E0, 0x5C)), Some((E0, 0x27))),
    // README prints 0xE05C for Apps' Set 1 code (a copy of the RWin row); Microsoft: E0 5D
    (K::Apps, Some((E0, 0x5D)), Some((E0, 0x2F))),
    (K::RControl, Some((E0, 0x1D)), Some((E0, 0x14))),
    (K::ArrowLeft, Some((E0, 0x4B)), Some((E0, 0x6B))),
    (K::ArrowDown, Some((E0, 0x50)), Some((E0, 0x72))),
    (K::ArrowRight, Some((E0, 0x4D)), Some((E0, 0x74))),
    (K::Numpad0, Some((PLAIN, 0x52)), Some((PLAIN, 0x70))),
    (K::NumpadPeriod, Some((PLAIN, 0x53)), Some((PLAIN, 0x71))),
    (K::Oem9, Some((PLAIN, 0x7B)), Some((PLAIN, 0x67))),
    (K::Oem10, Some((PLAIN, 0x79)), Some((PLAIN, 0x64))),
    (K::Oem11, Some((PLAIN, 0x70)), Some((PLAIN, 0x13))),
    (K::Oem12, Some((PLAIN, 0x73)), Some((PLAIN, 0x51))),
    (K::Oem13, Some((PLAIN, 0x7D)), Some((PLAIN, 0x6A))),
    (K::PrevTrack, Some((E0, 0x10)), Some((E0, 0x15))),
    (K::NextTrack, Some((E0, 0x19)), Some((E0, 0x4D))),
    (K::Mute, Some((E0, 0x20)), Some((E0, 0x23))),
    (K::Calculator, Some((E0, 0x21)), Some((E0, 0x2B))),
    (K::Play, Some((E0, 0x22)), Some((E0, 0x34))),
    (K::Stop, Some((E0, 0x24)), Some((E0, 0x3B))),
    (K::VolumeDown, Some((E0, 0x2E)), Some((E0, 0x21))),
    (K::VolumeUp, Some((E0, 0x30)), Some((E0, 0x32))),
    (K::WWWHome, Some((E0, 0x32)), Some((E0, 0x3A))),
    (K::TooManyKeys, None, Some((PLAIN, 0x00))),
    (K::PowerOnTestOk, None, Some((PLAIN, 0xAA))),
    (K::RControl2, Some((E1, 0x1D)), Some((E1, 0x14))),
    (K::RAlt2, Some((E0, 0x2A)), Some((E0, 0x12))),
];

/// R-SET lookup: the key the standard assigns to (table, code) in the given set.
pub fn ref_lookup(set: u8, table: u8, code: u8) -> Option<KeyCode> {
    TABLE
        .iter()
        .find(|(_, s1, s2)| {
            let e = if set == 1 { s1 } else { s2 };
            *e == Some((table, code))
        })
        .map(|(k, _, _)| *k)
}

pub fn ref_code(set: u8, key: KeyCode) -> Option<(u8, u8)> {
    TABLE.iter().find(|(k, _, _)| *k == key).and_then(|(_, s1, s2)| if set == 1 { *s1 } else { *s2 })
}

pub fn ref_keys(set: u8) -> Vec<KeyCode> {
    TABLE.iter().filter(|(_, s1, s2)| if set == 1 { s1.is_some() } else { s2.is_some() }).map(|(k, _, _)| *k).collect()
}

// ---- README extension rows: keys added to the crate *and* to its README after this harness was written ----

/// (key name, Set 1 entry, Set 2 entry) for README rows whose key name is not among the 124 embedded keys and
/// whose codes do not collide with an embedded entry. Filled once by `load_readme_extras`.
static EXTRAS: std::sync::OnceLock<Vec<(String, Option<(u8, u8)>, Option<(u8, u8)>)>> = std::sync::OnceLock::new();

pub fn load_readme_extras(repo: &str) -> usize {
    let mut v = vec![];
    if let Ok(s) = std::fs::read_to_string(format!("{}/README.md", repo)) {
        let mut in_table = false;
        for line in s.lines() {
            if line.starts_with("| Symbolic Key") {
                in_table = true;
                continue;
            }
            if !in_table || !line.starts_with('|') {
                continue;
            }
            let cells: Vec<&str> = line.trim_matches('|').split('|').map(|c| c.trim()).collect();
            if cells.len() != 3 || cells[0] == "-" || cells[0].starts_with("---") || crate::common::key_by_name(cells[0]).is_some() {
                continue;
            }
            let (Some(s1), Some(s2)) = (parse_code(cells[1]), parse_code(cells[2])) else { continue };
            let free1 = s1.map_or(true, |(t, c)| ref_lookup(1, t, c).is_none() && !(t == PLAIN && (c >= 0x80 || c == 0x60 || c == 0x61)));
            let free2 = s2.map_or(true, |(t, c)| ref_lookup(2, t, c).is_none() && !matches!(c, 0xE0 | 0xE1 | 0xF0));
            if free1 && free2 && cells[0].chars().all(|c| c.is_ascii_alphanumeric()) {
                v.push((cells[0].to_string(), s1, s2));
            }
        }
    }
    let n = v.len();
    let _ = EXTRAS.set(v);
    n
}

fn extra_lookup(set: u8, table: u8, code: u8) -> Option<String> {
    EXTRAS.get()?.iter().find(|(_, s1, s2)| (if set == 1 { *s1 } else { *s2 }) == Some((table, code))).map(|(n, _, _)| n.clone())
}

// ---- R-AUTO: prefix automata ---------------------------------------------------------------

/// Reference prefix context of Set 2: (table, break-prefix seen).
#[derive(Clone, Copy, Debug, PartialEq, Eq, Hash, PartialOrd, Ord)]
pub struct Ctx2 {
    pub table: u8,
    pub brk: bool,
}
pub const CTX2_INIT: Ctx2 = Ctx2 { table: PLAIN, brk: false };

/// What the statement allows as the result of one byte.
#[derive(Clone, Debug, PartialEq, Eq)]
pub enum Allowed {
    /// exactly Ok(None)
    NoEvent,
    /// exactly Ok(Some(key,state))
    Event(KeyCode, KeyState),
    /// exactly Err(UnknownKeyCode)
    Unknown,
    /// the statement is silent (F0 00 / F0 AA): an Up or SingleShot of that status key, or UnknownKeyCode
    Loose(KeyCode),
    /// a key the embedded table does not know but the repository's own README conversion table defines
    /// (a key added after this harness was written): exactly that key, identified by its Debug name
    EventNamed(String, KeyState),
}

impl Allowed {
    pub fn text(&self) -> String {
        match self {
            Allowed::NoEvent => "Ok(None)".into(),
            Allowed::Event(k, s) => format!("Ok({:?} {:?})", k, s),
            Allowed::Unknown => "Err(UnknownKeyCode)".into(),
            Allowed::Loose(k) => format!("Ok({:?} Up|SingleShot) or Err(UnknownKeyCode)", k),
            Allowed::EventNamed(n, s) => format!("Ok({} {:?})", n, s),
        }
    }
    pub fn admits(&self, r: &Result<Option<pc_keyboard::KeyEvent>, pc_keyboard::Error>) -> bool {
        use pc_keyboard::Error;
        match (self, r) {
            (Allowed::NoEvent, Ok(None)) => true,
            (Allowed::Event(k, s), Ok(Some(e))) => e.code == *k && e.state == *s,
            (Allowed::Unknown, Err(Error::UnknownKeyCode)) => true,
            (Allowed::Loose(k), Ok(Some(e))) => e.code == *k && (e.state == KeyState::Up || e.state == KeyState::SingleShot),
            (Allowed::Loose(_), Err(Error::UnknownKeyCode)) => true,
            (Allowed::EventNamed(n, s), Ok(Some(e))) => format!("{:?}", e.code) == *n && e.state == *s,
            _ => false,
        }
    }
    /// does this result end a sequence (event or error)?
    pub fn is_terminal(&self) -> bool {
        !matches!(self, Allowed::NoEvent)
    }
}

/// R-AUTO2 step: (allowed result, next context)
pub fn auto2(c: Ctx2, b: u8) -> (Allowed, Ctx2) {
    // prefix bytes in prefix position
    if !c.brk {
        if c.table == PLAIN && (b == 0xE0 || b == 0xE1) {
            return (Allowed::NoEvent, Ctx2 { table: if b == 0xE0 { E0 } else { E1 }, brk: false });
        }
        if b == 0xF0 {
            return (Allowed::NoEvent, Ctx2 { table: c.table, brk: true });
        }
    }
    // code position (a prefix byte here is an undefined code)
    let a = match ref_lookup(2, c.table, b) {
        Some(k) if k == K::TooManyKeys || k == K::PowerOnTestOk => {
            if c.brk {
                Allowed::Loose(k)
            } else {
                Allowed::Event(k, KeyState::SingleShot)
            }
        }
        Some(k) => Allowed::Event(k, if c.brk { KeyState::Up } else { KeyState::Down }),
        None => match extra_lookup(2, c.table, b) {
            Some(n) => Allowed::EventNamed(n, if c.brk { KeyState::Up } else { KeyState::Down }),
            None => Allowed::Unknown,
        },
    };
    (a, CTX2_INIT)
}

/// R-AUTO1: context = table only.
pub fn auto1(table: u8, b: u8) -> (Allowed, u8) {
    if table == PLAIN && b == 0xE0 {
        return (Allowed::NoEvent, E0);
    }
    if table == PLAIN && b == 0xE1 {
        return (Allowed::NoEvent, E1);
    }
    let code = b & 0x7F;
    let st = if b & 0x80 != 0 { KeyState::Up } else { KeyState::Down };
    let a = match ref_lookup(1, table, code) {
        Some(k) => Allowed::Event(k, st),
        None => match extra_lookup(1, table, code) {
            Some(n) => Allowed::EventNamed(n, st),
            None => Allowed::Unknown,
        },
    };
    (a, PLAIN)
}

/// What a table look-up in context (table, release flag) must yield for `byte` (used when the prefix automaton is
/// supplied from outside, e.g. by the TLA+ model): Set 2: the byte is the code; Set 1: low 7 bits, bit 7 = release.
pub fn lookup_allowed(set: u8, table: u8, brk: bool, byte: u8) -> Allowed {
    if set == 2 {
        match ref_lookup(2, table, byte) {
            Some(k) if k == K::TooManyKeys || k == K::PowerOnTestOk => {
                if brk {
                    Allowed::Loose(k)
                } else {
                    Allowed::Event(k, KeyState::SingleShot)
                }
            }
            Some(k) => Allowed::Event(k, if brk { KeyState::Up } else { KeyState::Down }),
            None => match extra_lookup(2, table, byte) {
                Some(n) => Allowed::EventNamed(n, if brk { KeyState::Up } else { KeyState::Down }),
                None => Allowed::Unknown,
            },
        }
    } else {
        let code = byte & 0x7F;
        let st = if byte & 0x80 != 0 { KeyState::Up } else { KeyState::Down };
        match ref_lookup(1, table, code) {
            Some(k) => Allowed::Event(k, st),
            None => match extra_lookup(1, table, code) {
                Some(n) => Allowed::EventNamed(n, st),
                None => Allowed::Unknown,
            },
        }
    }
}

// ---- R-8042 ----------------------------------------------------------------------------------

/// The i8042 Set 2 -> Set 1 translation table for bytes 0x00..0x7F (Brouwer §10 / IBM PS/2 TR).
pub const XLATE: [u8; 128] = [
    0xff, 0x43, 0x41, 0x3f, 0x3d, 0x3b, 0x3c, 0x58, 0x64, 0x44, 0x42, 0x40, 0x3e, 0x0f, 0x29, 0x59, //
    0x65, 0x38, 0x2a, 0x70, 0x1d, 0x10, 0x02, 0x5a, 0x66, 0x71, 0x2c, 0x1f, 0x1e, 0x11, 0x03, 0x5b, //
    0x67, 0x2e, 0x2d, 0x20, 0x12, 0x05, 0x04, 0x5c, 0x68, 0x39, 0x2f, 0x21, 0x14, 0x13, 0x06, 0x5d, //
    0x69, 0x31, 0x30, 0x23, 0x22, 0x15, 0x07, 0x5e, 0x6a, 0x72, 0x32, 0x24, 0x16, 0x08, 0x09, 0x5f, //
    0x6b, 0x33, 0x25, 0x17, 0x18, 0x0b, 0x0a, 0x60, 0x6c, 0x34, 0x35, 0x26, 0x27, 0x19, 0x0c, 0x61, //
    0x6d, 0x73, 0x28, 0x74, 0x1a, 0x0d, 0x62, 0x6e, 0x3a, 0x36, 0x1c, 0x1b, 0x75, 0x2b, 0x63, 0x76, //
    0x55, 0x56, 0x77, 0x78, 0x79, 0x7a, 0x0e, 0x7b, 0x7c, 0x4f, 0x7d, 0x4b, 0x47, 0x7e, 0x7f, 0x6f, //
    0x52, 0x53, 0x50, 0x4c, 0x4d, 0x48, 0x01, 0x45, 0x57, 0x4e, 0x51, 0x4a, 0x37, 0x49, 0x46, 0x54,
];

/// Translation of one Set 2 code byte (not a prefix); `None` = no translation defined here.
pub fn xlate(c: u8) -> Option<u8> {
    match c {
        0x01..=0x7F => Some(XLATE[c as usize]),
        0x83 => Some(0x41),
        0x84 => Some(0x54),
        _ => None,
    }
}

/// Translate a whole Set 2 key sequence `[E0|E1] [F0] code` into the Set 1 sequence.
pub fn xlate_seq(table: u8, brk: bool, code: u8) -> Option<(Vec<u8>, Vec<u8>)> {
    let x = xlate(code)?;
    let mut s2 = vec![];
    let mut s1 = vec![];
    match table {
        E0 => {
            s2.push(0xE0);
            s1.push(0xE0);
        }
        E1 => {
            s2.push(0xE1);
            s1.push(0xE1);
        }
        _ => {}
    }
    if brk {
        s2.push(0xF0);
    }
    s2.push(code);
    s1.push(if brk { x | 0x80 } else { x });
    Some((s2, s1))
}

// ---- README cross-check (consistency note on the oracle, never a verdict) -------------------

pub struct ReadmeReport {
    pub rows: usize,
    pub agree: usize,
    pub differ: Vec<String>,
}

fn parse_code(s: &str) -> Option<Option<(u8, u8)>> {
    let s = s.trim();
    if s == "--" {
        return Some(None);
    }
    let h = s.strip_prefix("0x")?;
    let v = u32::from_str_radix(h, 16).ok()?;
    Some(Some(match h.len() {
        2 => (PLAIN, v as u8),
        4 => match v >> 8 {
            0xE0 => (E0, v as u8),
            0xE1 => (E1, v as u8),
            _ => return None,
        },
        _ => return None,
    }))
}

pub fn readme_check(repo: &str) -> Option<ReadmeReport> {
    let s = std::fs::read_to_string(format!("{}/README.md", repo)).ok()?;
    let mut rep = ReadmeReport { rows: 0, agree: 0, differ: vec![] };
    let mut in_table = false;
    for line in s.lines() {
        if line.starts_with("| Symbolic Key") {
            in_table = true;
            continue;
        }
        if !in_table {
            continue;
        }
        if !line.starts_with('|') {
            if rep.rows > 0 {
                break;
            }
            continue;
        }
        let cells: Vec<&str> = line.trim_matches('|').split('|').map(|c| c.trim()).collect();
        if cells.len() != 3 || cells[0] == "-" || cells[0].starts_with("---") {
            continue;
        }
        let Some(key) = crate::common::key_by_name(cells[0]) else { continue };
        let (Some(s1), Some(s2)) = (parse_code(cells[1]), parse_code(cells[2])) else { continue };
        rep.rows += 1;
        let r1 = ref_code(1, key);
        let r2 = ref_code(2, key);
        if r1 == s1 && r2 == s2 {
            rep.agree += 1;
        } else {
            rep.differ.push(format!("{}: README {}/{} vs reference {:02X?}/{:02X?}", cells[0], cells[1], cells[2], r1, r2));
        }
    }
    Some(rep)
}
