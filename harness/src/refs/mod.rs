pub mod scancodes;
