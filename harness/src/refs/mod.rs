pub mod scancodes;
pub mod layouts;
