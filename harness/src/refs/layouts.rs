//! R-LAYOUT / R-NUMPAD / R-EDIT / R-RAW52: hand-written from the national / ergonomic layout
//! standards (Microsoft KBDUS, KBDUK, KBDGR, KBDFR, KBDNO, KBDFI/KBDSW, KBD106 (OADG 109/109A),
//! KBDDV; colemak.com; Kaufmann's Programmer Dvorak; X11 symbols and AFNOR NF Z71-300 as second
//! sources). Nothing here is derived from the crate's code. Where recognised standards disagree on
//! a cell the reference holds a *set* of acceptable characters.

use crate::common::*;
use pc_keyboard::KeyCode;
use pc_keyboard::KeyCode as K;

/// The 48 character keys of the main block in a fixed order; JIS adds Oem12/Oem13.
pub const MAIN48: [KeyCode; 48] = [
    K::Oem8, K::Key1, K::Key2, K::Key3, K::Key4, K::Key5, K::Key6, K::Key7, K::Key8, K::Key9, K::Key0, K::OemMinus, K::OemPlus,
    K::Q, K::W, K::E, K::R, K::T, K::Y, K::U, K::I, K::O, K::P, K::Oem4, K::Oem6,
    K::A, K::S, K::D, K::F, K::G, K::H, K::J, K::K, K::L, K::Oem1, K::Oem3, K::Oem7, K::Oem5,
    K::Z, K::X, K::C, K::V, K::B, K::N, K::M, K::OemComma, K::OemPeriod, K::Oem2,
];

/// '∅' marks a position with no such key on that physical keyboard (ANSI has no Oem5, JIS's
/// Oem8 is the IME key Hankaku/Zenkaku).
const NONE: char = '∅';

const BASE: [&str; N_LAYOUTS] = [
    /* us104   */ "`1234567890-=qwertyuiop[]asdfghjkl;'\\∅zxcvbnm,./",
    /* uk105   */ "`1234567890-=qwertyuiop[]asdfghjkl;'#\\zxcvbnm,./",
    /* de105   */ "^1234567890ß´qwertzuiopü+asdfghjklöä#<yxcvbnm,.-",
    /* azerty  */ "²&é\"'(-è_çà)=azertyuiop^$qsdfghjklmù*<wxcvbn,;:!",
    /* no105   */ "|1234567890+\\qwertyuiopå¨asdfghjkløæ'<zxcvbnm,.-",
    /* fi_se   */ "§1234567890+´qwertyuiopå¨asdfghjklöä'<zxcvbnm,.-",
    /* jis109  */ "∅1234567890-^qwertyuiop@[asdfghjkl;:]∅zxcvbnm,./",
    /* colemak */ "`1234567890-=qwfpgjluy;[]arstdhneio'\\∅zxcvbkm,./",
    /* dvorak  */ "`1234567890[]',.pyfgcrl/=aoeuidhtns-\\∅;qjkxbmwvz",
    /* dvp     */ "$&[{}(=*)+]!#;,.pyfgcrl/@aoeuidhtns-\\∅'qjkxbmwvz",
];
const SHIFT: [&str; N_LAYOUTS] = [
    /* us104   */ "~!@#$%^&*()_+QWERTYUIOP{}ASDFGHJKL:\"|∅ZXCVBNM<>?",
    /* uk105   */ "¬!\"£$%^&*()_+QWERTYUIOP{}ASDFGHJKL:@~|ZXCVBNM<>?",
    /* de105   */ "°!\"§$%&/()=?`QWERTZUIOPÜ*ASDFGHJKLÖÄ'>YXCVBNM;:_",
    /* azerty  */ "²1234567890°+AZERTYUIOP¨£QSDFGHJKLM%µ>WXCVBN?./§",
    /* no105   */ "§!\"#¤%&/()=?`QWERTYUIOPÅ^ASDFGHJKLØÆ*>ZXCVBNM;:_",
    /* fi_se   */ "½!\"#¤%&/()=?`QWERTYUIOPÅ^ASDFGHJKLÖÄ*>ZXCVBNM;:_",
    /* jis109  */ "∅!\"#$%&'()~=¯QWERTYUIOP`{ASDFGHJKL+*}∅ZXCVBNM<>?",
    /* colemak */ "~!@#$%^&*()_+QWFPGJLUY:{}ARSTDHNEIO\"|∅ZXCVBKM<>?",
    /* dvorak  */ "~!@#$%^&*(){}\"<>PYFGCRL?+AOEUIDHTNS_|∅:QJKXBMWVZ",
    /* dvp     */ "~%7531902468`:<>PYFGCRL?^AOEUIDHTNS_|∅\"QJKXBMWVZ",
];

/// extra keys outside MAIN48: (layout, key, base, shift)
const EXTRA: &[(usize, KeyCode, char, char)] = &[(L_JIS, K::Oem12, '\\', '_'), (L_JIS, K::Oem13, '¥', '|')];

/// cells where recognised standards differ: (layout, key, level 0=base 1=shift, additional accepted characters)
const VARIANTS: &[(usize, KeyCode, u8, &str)] = &[
    // French key ²: Windows KBDFR has no shifted character (stays ²); X11 fr gives ³
    (L_FR, K::Oem8, 1, "³"),
    // JIS: OADG 109 has no Shift+0 character and Shift+^ = ~; OADG 109A has Shift+0 = ~ and Shift+^ = overline
    (L_JIS, K::Key0, 1, "0"),
    (L_JIS, K::OemPlus, 1, "~‾"),
    // JIS yen key: some references give backslash for the ¥ position in ASCII mode
    (L_JIS, K::Oem13, 0, "\\"),
];

/// The standard's AltGr (level 3) characters per key. A layout may leave a key without a distinct
/// AltGr character; if it does give one, it must be in this set.
const ALTGR: &[(usize, KeyCode, &str)] = &[
    // United Kingdom: KBDUK (¦, €, acute vowels) and X11 gb (|)
    (L_UK, K::Oem8, "¦|"),
    (L_UK, K::Key4, "€"),
    (L_UK, K::A, "áÁ"),
    (L_UK, K::E, "éÉ"),
    (L_UK, K::I, "íÍ"),
    (L_UK, K::O, "óÓ"),
    (L_UK, K::U, "úÚ"),
    // German: KBDGR (T1)
    (L_DE, K::Key2, "²"),
    (L_DE, K::Key3, "³"),
    (L_DE, K::Key7, "{"),
    (L_DE, K::Key8, "["),
    (L_DE, K::Key9, "]"),
    (L_DE, K::Key0, "}"),
    (L_DE, K::OemMinus, "\\"),
    (L_DE, K::Q, "@"),
    (L_DE, K::E, "€"),
    (L_DE, K::Oem6, "~"),
    (L_DE, K::Oem5, "|"),
    (L_DE, K::M, "µ"),
    // French: KBDFR; AFNOR NF Z71-300 gives the caron on AltGr+^
    (L_FR, K::Key2, "~"),
    (L_FR, K::Key3, "#"),
    (L_FR, K::Key4, "{"),
    (L_FR, K::Key5, "["),
    (L_FR, K::Key6, "|"),
    (L_FR, K::Key7, "`"),
    (L_FR, K::Key8, "\\"),
    (L_FR, K::Key9, "^"),
    (L_FR, K::Key0, "@"),
    (L_FR, K::OemMinus, "]"),
    (L_FR, K::OemPlus, "}"),
    (L_FR, K::E, "€"),
    (L_FR, K::Oem6, "¤"),
    (L_FR, K::Oem4, "ˇ"),
    // Norwegian: KBDNO
    (L_NO, K::Key2, "@"),
    (L_NO, K::Key3, "£"),
    (L_NO, K::Key4, "$"),
    (L_NO, K::Key5, "€"),
    (L_NO, K::Key7, "{"),
    (L_NO, K::Key8, "["),
    (L_NO, K::Key9, "]"),
    (L_NO, K::Key0, "}"),
    (L_NO, K::OemPlus, "´"),
    (L_NO, K::E, "€"),
    (L_NO, K::Oem6, "~"),
    (L_NO, K::M, "µ"),
    // Finnish/Swedish: KBDFI / KBDSW
    (L_FI, K::Key2, "@"),
    (L_FI, K::Key3, "£"),
    (L_FI, K::Key4, "$"),
    (L_FI, K::Key5, "€"),
    (L_FI, K::Key7, "{"),
    (L_FI, K::Key8, "["),
    (L_FI, K::Key9, "]"),
    (L_FI, K::Key0, "}"),
    (L_FI, K::OemMinus, "\\"),
    (L_FI, K::E, "€"),
    (L_FI, K::Oem6, "~"),
    (L_FI, K::Oem5, "|"),
    (L_FI, K::M, "µ"),
];

/// Layouts whose official AltGr layer is large and not embedded here: a distinct AltGr character
/// without a reference entry is reported as *unjudged* (evidence), not as a violation.
pub fn altgr_unjudged(l: usize) -> bool {
    l == L_COLEMAK || l == L_DVP
}

pub fn main_keys(l: usize) -> Vec<KeyCode> {
    let b: Vec<char> = BASE[l].chars().collect();
    let mut v: Vec<KeyCode> = MAIN48.iter().enumerate().filter(|(i, _)| b[*i] != NONE).map(|(_, k)| *k).collect();
    for (el, k, _, _) in EXTRA {
        if *el == l {
            v.push(*k);
        }
    }
    v
}

/// accepted characters for (layout, key, level 0=base/1=shift); None = not a character key here
pub fn ref_level(l: usize, k: KeyCode, level: u8) -> Option<Vec<char>> {
    let tbl = if level == 0 { &BASE } else { &SHIFT };
    let mut out = vec![];
    if let Some(i) = MAIN48.iter().position(|x| *x == k) {
        let c = tbl[l].chars().nth(i).unwrap();
        if c == NONE {
            return None;
        }
        out.push(c);
    } else if let Some((_, _, b, s)) = EXTRA.iter().find(|(el, ek, _, _)| *el == l && *ek == k) {
        out.push(if level == 0 { *b } else { *s });
    } else {
        return None;
    }
    for (vl, vk, vlev, extra) in VARIANTS {
        if *vl == l && *vk == k && *vlev == level {
            out.extend(extra.chars());
        }
    }
    Some(out)
}

pub fn ref_altgr(l: usize, k: KeyCode) -> Vec<char> {
    ALTGR.iter().filter(|(al, ak, _)| *al == l && *ak == k).flat_map(|(_, _, s)| s.chars()).collect()
}

pub fn tables_well_formed() -> bool {
    BASE.iter().all(|s| s.chars().count() == 48) && SHIFT.iter().all(|s| s.chars().count() == 48)
}

// ---- R-NUMPAD / R-EDIT / R-RAW52 -----------------------------------------------------------------

/// numpad digit keys: (key, digit, navigation alias when NumLock is off; None for Numpad5)
pub const NUMPAD_DIGITS: [(KeyCode, char, Option<KeyCode>); 10] = [
    (K::Numpad0, '0', Some(K::Insert)),
    (K::Numpad1, '1', Some(K::End)),
    (K::Numpad2, '2', Some(K::ArrowDown)),
    (K::Numpad3, '3', Some(K::PageDown)),
    (K::Numpad4, '4', Some(K::ArrowLeft)),
    (K::Numpad5, '5', None),
    (K::Numpad6, '6', Some(K::ArrowRight)),
    (K::Numpad7, '7', Some(K::Home)),
    (K::Numpad8, '8', Some(K::ArrowUp)),
    (K::Numpad9, '9', Some(K::PageUp)),
];
pub const NUMPAD_OPS: [(KeyCode, char); 4] = [(K::NumpadDivide, '/'), (K::NumpadMultiply, '*'), (K::NumpadSubtract, '-'), (K::NumpadAdd, '+')];
pub const EDIT_KEYS: [(KeyCode, char); 6] =
    [(K::Escape, '\u{1B}'), (K::Backspace, '\u{08}'), (K::Tab, '\u{09}'), (K::Return, '\u{0A}'), (K::Delete, '\u{7F}'), (K::Spacebar, ' ')];

/// decimal separator(s) accepted for the numpad decimal key with NumLock on
pub fn decimal_separators(l: usize) -> &'static str {
    match l {
        x if x == L_NO || x == L_FI => ",",
        // German and French: national convention says ',', the Windows layouts type '.' / ','; both accepted
        x if x == L_DE || x == L_FR => ".,",
        _ => ".",
    }
}

/// the 52 keys that carry no character on any keyboard
pub const RAW52: [KeyCode; 52] = [
    K::F1, K::F2, K::F3, K::F4, K::F5, K::F6, K::F7, K::F8, K::F9, K::F10, K::F11, K::F12,
    K::PrintScreen, K::SysRq, K::ScrollLock, K::PauseBreak,
    K::Insert, K::Home, K::PageUp, K::End, K::PageDown,
    K::ArrowUp, K::ArrowLeft, K::ArrowDown, K::ArrowRight,
    K::NumpadLock, K::CapsLock, K::LShift, K::RShift, K::LControl, K::RControl, K::LAlt, K::RAltGr,
    K::LWin, K::RWin, K::Apps,
    K::PrevTrack, K::NextTrack, K::Mute, K::Calculator, K::Play, K::Stop, K::VolumeDown, K::VolumeUp, K::WWWHome,
    K::PowerOnTestOk, K::TooManyKeys, K::RControl2, K::RAlt2,
    K::Oem9, K::Oem10, K::Oem11,
];
