//! Hook-neutrality probe.  The harness is built against pc-keyboard WITH the `verif-hooks` feature; users get the crate
//! WITHOUT it.  This program uses only the public API that exists in both builds and prints digests of exhaustive output
//! tables, group by group.  It is built twice (default features / `--features hooks`); the two builds must print exactly
//! the same lines - otherwise what the checks establish about the hooks-on build says nothing about the crate users get.
//!
//!   probe_neutral list <section>...            one line per group:  section \t group \t digest
//!   probe_neutral expand <section> <group>     one line per item:   item \t output
//!
//! Sections: pred, layout, set1, set2, ps2, ed, kb1, kb2.

use pc_keyboard::layouts::*;
use pc_keyboard::*;
use std::fmt::Write as _;
use std::panic::{catch_unwind, AssertUnwindSafe};

const KEYS: &[KeyCode] = &[
    KeyCode::Escape, KeyCode::F1, KeyCode::F2, KeyCode::F3, KeyCode::F4, KeyCode::F5, KeyCode::F6, KeyCode::F7, KeyCode::F8, KeyCode::F9, KeyCode::F10, KeyCode::F11, KeyCode::F12,
    KeyCode::PrintScreen, KeyCode::SysRq, KeyCode::ScrollLock, KeyCode::PauseBreak, KeyCode::Oem8, KeyCode::Key1, KeyCode::Key2, KeyCode::Key3, KeyCode::Key4, KeyCode::Key5, KeyCode::Key6,
    KeyCode::Key7, KeyCode::Key8, KeyCode::Key9, KeyCode::Key0, KeyCode::OemMinus, KeyCode::OemPlus, KeyCode::Backspace, KeyCode::Insert, KeyCode::Home, KeyCode::PageUp, KeyCode::NumpadLock,
    KeyCode::NumpadDivide, KeyCode::NumpadMultiply, KeyCode::NumpadSubtract, KeyCode::Tab, KeyCode::Q, KeyCode::W, KeyCode::E, KeyCode::R, KeyCode::T, KeyCode::Y, KeyCode::U, KeyCode::I,
    KeyCode::O, KeyCode::P, KeyCode::Oem4, KeyCode::Oem6, KeyCode::Oem5, KeyCode::Oem7, KeyCode::Delete, KeyCode::End, KeyCode::PageDown, KeyCode::Numpad7, KeyCode::Numpad8, KeyCode::Numpad9,
    KeyCode::NumpadAdd, KeyCode::CapsLock, KeyCode::A, KeyCode::S, KeyCode::D, KeyCode::F, KeyCode::G, KeyCode::H, KeyCode::J, KeyCode::K, KeyCode::L, KeyCode::Oem1, KeyCode::Oem3,
    KeyCode::Return, KeyCode::Numpad4, KeyCode::Numpad5, KeyCode::Numpad6, KeyCode::LShift, KeyCode::Z, KeyCode::X, KeyCode::C, KeyCode::V, KeyCode::B, KeyCode::N, KeyCode::M,
    KeyCode::OemComma, KeyCode::OemPeriod, KeyCode::Oem2, KeyCode::RShift, KeyCode::ArrowUp, KeyCode::Numpad1, KeyCode::Numpad2, KeyCode::Numpad3, KeyCode::NumpadEnter, KeyCode::LControl,
    KeyCode::LWin, KeyCode::LAlt, KeyCode::Spacebar, KeyCode::RAltGr, KeyCode::RWin, KeyCode::Apps, KeyCode::RControl, KeyCode::ArrowLeft, KeyCode::ArrowDown, KeyCode::ArrowRight,
    KeyCode::Numpad0, KeyCode::NumpadPeriod, KeyCode::Oem9, KeyCode::Oem10, KeyCode::Oem11, KeyCode::Oem12, KeyCode::Oem13, KeyCode::PrevTrack, KeyCode::NextTrack, KeyCode::Mute,
    KeyCode::Calculator, KeyCode::Play, KeyCode::Stop, KeyCode::VolumeDown, KeyCode::VolumeUp, KeyCode::WWWHome, KeyCode::PowerOnTestOk, KeyCode::TooManyKeys, KeyCode::RControl2, KeyCode::RAlt2,
];
const LAYOUTS: [&str; 10] = ["us104", "uk105", "de105", "azerty", "no105", "fi_se105", "jis109", "colemak", "dvorak104", "dvp104"];
const MODES: [HandleControl; 2] = [HandleControl::MapLettersToUnicode, HandleControl::Ignore];

fn any(l: usize) -> AnyLayout {
    match l {
        0 => AnyLayout::Us104Key(Us104Key),
        1 => AnyLayout::Uk105Key(Uk105Key),
        2 => AnyLayout::De105Key(De105Key),
        3 => AnyLayout::Azerty(Azerty),
        4 => AnyLayout::No105Key(No105Key),
        5 => AnyLayout::FiSe105Key(FiSe105Key),
        6 => AnyLayout::Jis109Key(Jis109Key),
        7 => AnyLayout::Colemak(Colemak),
        8 => AnyLayout::Dvorak104Key(Dvorak104Key),
        _ => AnyLayout::DVP104Key(DVP104Key),
    }
}
fn direct(l: usize, k: KeyCode, m: &Modifiers, hc: HandleControl) -> DecodedKey {
    match l {
        0 => Us104Key.map_keycode(k, m, hc),
        1 => Uk105Key.map_keycode(k, m, hc),
        2 => De105Key.map_keycode(k, m, hc),
        3 => Azerty.map_keycode(k, m, hc),
        4 => No105Key.map_keycode(k, m, hc),
        5 => FiSe105Key.map_keycode(k, m, hc),
        6 => Jis109Key.map_keycode(k, m, hc),
        7 => Colemak.map_keycode(k, m, hc),
        8 => Dvorak104Key.map_keycode(k, m, hc),
        _ => DVP104Key.map_keycode(k, m, hc),
    }
}
fn mods(b: u16) -> Modifiers {
    let mut m = Modifiers::default();
    m.lshift = b & 1 != 0;
    m.rshift = b & 2 != 0;
    m.lctrl = b & 4 != 0;
    m.rctrl = b & 8 != 0;
    m.numlock = b & 16 != 0;
    m.capslock = b & 32 != 0;
    m.lalt = b & 64 != 0;
    m.ralt = b & 128 != 0;
    m.rctrl2 = b & 256 != 0;
    m
}
fn mods_bits(m: &Modifiers) -> u16 {
    (m.lshift as u16) | (m.rshift as u16) << 1 | (m.lctrl as u16) << 2 | (m.rctrl as u16) << 3 | (m.numlock as u16) << 4 | (m.capslock as u16) << 5 | (m.lalt as u16) << 6 | (m.ralt as u16) << 7 | (m.rctrl2 as u16) << 8
}
/// key events that bring a fresh decoder (numlock on) to the modifier value `b`
fn path(b: u16) -> Vec<(KeyCode, KeyState)> {
    let mut v = vec![];
    for (bit, k) in [(1u16, KeyCode::LShift), (2, KeyCode::RShift), (4, KeyCode::LControl), (8, KeyCode::RControl), (64, KeyCode::LAlt), (128, KeyCode::RAltGr)] {
        if b & bit != 0 {
            v.push((k, KeyState::Down));
        }
    }
    if b & 16 == 0 {
        v.push((KeyCode::NumpadLock, KeyState::Down));
        v.push((KeyCode::NumpadLock, KeyState::Up));
    }
    if b & 32 != 0 {
        v.push((KeyCode::CapsLock, KeyState::Down));
        v.push((KeyCode::CapsLock, KeyState::Up));
    }
    if b & 256 != 0 {
        v.push((KeyCode::RControl2, KeyState::Down));
    }
    v
}
fn guard<F: FnOnce() -> String>(f: F) -> String {
    catch_unwind(AssertUnwindSafe(f)).unwrap_or_else(|_| "PANIC".to_string())
}
fn encode(b: u8) -> u16 {
    let par = (b.count_ones() % 2 == 0) as u16;
    ((b as u16) << 1) | (par << 9) | (1 << 10)
}

/// one group = (name, items); an item = (name, output)
type Items = Vec<(String, String)>;

fn group_names(section: &str) -> Vec<String> {
    match section {
        "pred" => vec!["all".into()],
        "layout" => {
            let mut v = vec![];
            for form in ["direct", "any", "anyref"] {
                for l in LAYOUTS {
                    for k in KEYS {
                        v.push(format!("{}:{}:{:?}", form, l, k));
                    }
                }
            }
            v
        }
        "set1" | "set2" | "kb1" | "kb2" => (0..256).map(|b| format!("{:02X}", b)).collect(),
        "ps2" => (0..2048).map(|w| format!("{:03X}", w)).collect(),
        "ed" => {
            let mut v = vec![];
            for l in LAYOUTS {
                for mode in ["Map", "Ignore"] {
                    for m in 0..512 {
                        v.push(format!("{}:{}:{}", l, mode, m));
                    }
                }
            }
            v
        }
        _ => vec![],
    }
}

fn layout_id(name: &str) -> usize {
    LAYOUTS.iter().position(|x| *x == name).unwrap_or(0)
}
fn key_by_name(name: &str) -> KeyCode {
    *KEYS.iter().find(|k| format!("{:?}", k) == name).unwrap_or(&KeyCode::Escape)
}

fn items(section: &str, group: &str) -> Items {
    let mut out: Items = vec![];
    match section {
        "pred" => {
            for b in 0..512u16 {
                let m = mods(b);
                out.push((format!("{}", b), guard(|| format!("{} {} {} {} {}", m.is_shifted(), m.is_ctrl(), m.is_alt(), m.is_altgr(), m.is_caps()))));
            }
        }
        "layout" => {
            let p: Vec<&str> = group.split(':').collect();
            let (form, l, k) = (p[0], layout_id(p[1]), key_by_name(p[2]));
            let a = any(l);
            for mode in MODES {
                for b in 0..512u16 {
                    let m = mods(b);
                    let o = guard(|| {
                        format!("{:?}", match form {
                            "direct" => direct(l, k, &m, mode),
                            "any" => a.map_keycode(k, &m, mode),
                            _ => <&AnyLayout as KeyboardLayout>::map_keycode(&&a, k, &m, mode),
                        })
                    });
                    out.push((format!("{}:{:?}", b, mode), o));
                }
            }
        }
        "set1" | "set2" => {
            let b1 = u8::from_str_radix(group, 16).unwrap_or(0);
            fn run<S: ScancodeSet>(mut s: S, bytes: &[u8]) -> String {
                guard(|| {
                    let mut last = String::new();
                    for b in bytes {
                        last = format!("{:?}", s.advance_state(*b));
                    }
                    last
                })
            }
            let f = |bytes: &[u8]| if section == "set1" { run(ScancodeSet1::new(), bytes) } else { run(ScancodeSet2::new(), bytes) };
            out.push((format!("{:02X}", b1), f(&[b1])));
            for b2 in 0..=255u8 {
                out.push((format!("{:02X}{:02X}", b1, b2), f(&[b1, b2])));
                for b3 in 0..=255u8 {
                    out.push((format!("{:02X}{:02X}{:02X}", b1, b2, b3), f(&[b1, b2, b3])));
                }
            }
            // deeper, over the prefix / status / modifier alphabet: 5-byte streams starting with this byte
            let alpha: [u8; 10] = [0xE0, 0xE1, 0xF0, 0x12, 0x14, 0x77, 0x1C, 0xAA, 0x00, 0x9D];
            for a in alpha {
                for b in alpha {
                    for c in alpha {
                        for d in alpha {
                            out.push((format!("{:02X}{:02X}{:02X}{:02X}{:02X}", b1, a, b, c, d), f(&[b1, a, b, c, d])));
                        }
                    }
                }
            }
        }
        "ps2" => {
            let w1 = u16::from_str_radix(group, 16).unwrap_or(0);
            out.push(("word".into(), guard(|| format!("{:?}", Ps2Decoder::new().add_word(w1)))));
            for w2 in 0..2048u16 {
                let o = guard(|| {
                    let mut d = Ps2Decoder::new();
                    let mut s = String::new();
                    for w in [w1, w2] {
                        for i in 0..11 {
                            let r = d.add_bit((w >> i) & 1 != 0);
                            if i == 10 {
                                let _ = write!(s, "{:?};", r);
                            } else if r != Ok(None) {
                                let _ = write!(s, "early{}:{:?};", i, r);
                            }
                        }
                    }
                    s
                });
                out.push((format!("{:03X}", w2), o));
            }
            for k in 0..=10usize {
                for w2 in [encode(0x1C), 0x7FF, 0x000, encode(0xF0) & !(1 << 10)] {
                    let o = guard(|| {
                        let mut d = Ps2Decoder::new();
                        for i in 0..k {
                            let _ = d.add_bit((w1 >> i) & 1 != 0);
                        }
                        d.clear();
                        let mut s = String::new();
                        for i in 0..11 {
                            let r = d.add_bit((w2 >> i) & 1 != 0);
                            if i == 10 || r != Ok(None) {
                                let _ = write!(s, "{}:{:?};", i, r);
                            }
                        }
                        s
                    });
                    out.push((format!("clear{}:{:03X}", k, w2), o));
                }
            }
        }
        "ed" => {
            let p: Vec<&str> = group.split(':').collect();
            let l = layout_id(p[0]);
            let mode = if p[1] == "Map" { MODES[0] } else { MODES[1] };
            let m: u16 = p[2].parse().unwrap_or(0);
            let pth = path(m);
            let inter: Vec<(KeyCode, KeyState)> = {
                let mut v = vec![];
                for k in [KeyCode::LShift, KeyCode::RShift, KeyCode::LControl, KeyCode::RControl, KeyCode::LAlt, KeyCode::RAltGr, KeyCode::RControl2, KeyCode::CapsLock, KeyCode::NumpadLock] {
                    v.push((k, KeyState::Down));
                    v.push((k, KeyState::Up));
                }
                v.push((KeyCode::A, KeyState::Down));
                v.push((KeyCode::A, KeyState::Up));
                v.push((KeyCode::TooManyKeys, KeyState::SingleShot));
                v
            };
            for k in KEYS {
                for st in [KeyState::Down, KeyState::Up, KeyState::SingleShot] {
                    let o = guard(|| {
                        let mut d = EventDecoder::new(any(l), mode);
                        for (pk, ps) in &pth {
                            let _ = d.process_keyevent(KeyEvent::new(*pk, *ps));
                        }
                        format!("{:?}", d.process_keyevent(KeyEvent::new(*k, st)))
                    });
                    out.push((format!("{:?}:{:?}", k, st), o));
                }
                // press, one intermediate event, press again (second result)
                for (ik, is) in &inter {
                    let o = guard(|| {
                        let mut d = EventDecoder::new(any(l), mode);
                        for (pk, ps) in &pth {
                            let _ = d.process_keyevent(KeyEvent::new(*pk, *ps));
                        }
                        let _ = d.process_keyevent(KeyEvent::new(*k, KeyState::Down));
                        let _ = d.process_keyevent(KeyEvent::new(*ik, *is));
                        format!("{:?}", d.process_keyevent(KeyEvent::new(*k, KeyState::Down)))
                    });
                    out.push((format!("{:?}:Down,{:?}:{:?},again", k, ik, is), o));
                }
            }
        }
        "kb1" | "kb2" => {
            let b1 = u8::from_str_radix(group, 16).unwrap_or(0);
            fn run<S: ScancodeSet>(set: S, l: usize, mode: HandleControl, bytes: &[u8], via: u8) -> String {
                guard(|| {
                    let mut k = Keyboard::new(set, any(l), mode);
                    let mut s = String::new();
                    for b in bytes {
                        let r = match via {
                            0 => k.add_byte(*b),
                            1 => k.add_word(encode(*b)),
                            _ => {
                                let _ = k.add_bit(true);
                                k.clear();
                                let w = encode(*b);
                                let mut last = Ok(None);
                                for i in 0..11 {
                                    last = k.add_bit((w >> i) & 1 != 0);
                                }
                                last
                            }
                        };
                        match r {
                            Ok(Some(ev)) => {
                                let head = format!("{:?} {:?}", ev.code, ev.state);
                                let _ = write!(s, "{}->{:?};", head, k.process_keyevent(ev));
                            }
                            other => {
                                let _ = write!(s, "{:?};", other);
                            }
                        }
                    }
                    let _ = write!(s, "mods={} mode={:?}", mods_bits(k.get_modifiers()), k.get_ctrl_handling());
                    s
                })
            }
            let f = |l: usize, mode: HandleControl, bytes: &[u8], via: u8| if section == "kb1" { run(ScancodeSet1::new(), l, mode, bytes, via) } else { run(ScancodeSet2::new(), l, mode, bytes, via) };
            for (l, mode) in [(0usize, MODES[0]), (2, MODES[1])] {
                for via in 0..3u8 {
                    out.push((format!("{}:{:?}:via{}:{:02X}", LAYOUTS[l], mode, via, b1), f(l, mode, &[b1], via)));
                }
                for b2 in 0..=255u8 {
                    for via in 0..3u8 {
                        out.push((format!("{}:{:?}:via{}:{:02X}{:02X}", LAYOUTS[l], mode, via, b1, b2), f(l, mode, &[b1, b2], via)));
                    }
                }
                // longer: modifier / prefix / letter alphabet, 4 more bytes
                let alpha: [u8; 12] = if section == "kb2" { [0xE0, 0xE1, 0xF0, 0x12, 0x59, 0x14, 0x11, 0x58, 0x77, 0x15, 0x21, 0x70] } else { [0xE0, 0xE1, 0x2A, 0xAA, 0x36, 0x1D, 0x9D, 0x38, 0xB8, 0x3A, 0x45, 0x10] };
                for a in alpha {
                    if !alpha.contains(&b1) {
                        break; // the long streams start with a byte of the alphabet only
                    }
                    for b in alpha {
                        for c in alpha {
                            for d in alpha {
                                out.push((format!("{}:{:?}:{:02X}{:02X}{:02X}{:02X}{:02X}", LAYOUTS[l], mode, b1, a, b, c, d), f(l, mode, &[b1, a, b, c, d], 0)));
                            }
                        }
                    }
                }
            }
        }
        _ => {}
    }
    out
}

fn digest(items: &Items) -> u64 {
    // FNV-1a over "name\toutput\n"
    let mut h: u64 = 0xcbf29ce484222325;
    for (n, o) in items {
        for b in n.bytes().chain(std::iter::once(b'\t')).chain(o.bytes()).chain(std::iter::once(b'\n')) {
            h ^= b as u64;
            h = h.wrapping_mul(0x100000001b3);
        }
    }
    h
}

fn main() {
    std::panic::set_hook(Box::new(|_| {}));
    let args: Vec<String> = std::env::args().collect();
    match args.get(1).map(|s| s.as_str()) {
        Some("list") => {
            for section in &args[2..] {
                let groups = group_names(section);
                let n = std::thread::available_parallelism().map(|x| x.get()).unwrap_or(4).min(groups.len().max(1));
                let next = std::sync::atomic::AtomicUsize::new(0);
                let results = std::sync::Mutex::new(vec![0u64; groups.len()]);
                std::thread::scope(|sc| {
                    for _ in 0..n {
                        sc.spawn(|| loop {
                            let i = next.fetch_add(1, std::sync::atomic::Ordering::Relaxed);
                            if i >= groups.len() {
                                break;
                            }
                            let d = digest(&items(section, &groups[i]));
                            results.lock().unwrap()[i] = d;
                        });
                    }
                });
                let r = results.into_inner().unwrap();
                let mut s = String::new();
                for (g, d) in groups.iter().zip(r.iter()) {
                    let _ = writeln!(s, "{}\t{}\t{:016x}", section, g, d);
                }
                print!("{}", s);
            }
        }
        Some("expand") => {
            let (Some(section), Some(group)) = (args.get(2), args.get(3)) else {
                eprintln!("usage: expand <section> <group>");
                std::process::exit(2);
            };
            let mut s = String::new();
            for (n, o) in items(section, group) {
                let _ = writeln!(s, "{}\t{}", n, o);
            }
            print!("{}", s);
        }
        _ => {
            eprintln!("usage: probe_neutral list <section>... | expand <section> <group>");
            std::process::exit(2);
        }
    }
}
