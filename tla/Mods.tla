--------------------------------- MODULE Mods ---------------------------------
(* Independent re-specification of property C04's modifier record (R-MODS), written from the property text:
   seven momentary modifiers follow their key's last press/release; CapsLock and NumLock toggle on press, NumLock
   starting on, and a NumLock press made while the hidden Pause-Ctrl (RControl2) is held does not count; nothing else
   changes anything. TLC explores all 512 states; the harness replays every edge of the dumped graph on a real
   Keyboard and compares get_modifiers() with the model's successor state (conformance). *)
EXTENDS Naturals

Momentary == {"LShift", "RShift", "LControl", "RControl", "LAlt", "RAltGr", "RControl2"}
Locks     == {"CapsLock", "NumpadLock"}
VARIABLES held,   \* the set of momentary modifier keys currently held
          caps,   \* CapsLock toggle
          num     \* NumLock toggle

Init == held = {} /\ caps = FALSE /\ num = TRUE

Down(k) == /\ k \in Momentary
           /\ held' = held \cup {k}
           /\ UNCHANGED <<caps, num>>
Up(k)   == /\ k \in Momentary
           /\ held' = held \ {k}
           /\ UNCHANGED <<caps, num>>
CapsDown == caps' = ~caps /\ UNCHANGED <<held, num>>
NumDown  == /\ num' = (IF "RControl2" \in held THEN num ELSE ~num)
            /\ UNCHANGED <<held, caps>>
\* release of a lock key, any event of any other key, any one-shot event
Other    == UNCHANGED <<held, caps, num>>

Next == \/ \E k \in Momentary : Down(k) \/ Up(k)
        \/ CapsDown \/ NumDown \/ Other
Spec == Init /\ [][Next]_<<held, caps, num>>

TypeOK == held \subseteq Momentary /\ caps \in BOOLEAN /\ num \in BOOLEAN
=============================================================================
