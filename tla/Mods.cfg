SPECIFICATION Spec
INVARIANT TypeOK
