------------------------------ MODULE Set1Prefix ------------------------------
(* Scancode Set 1 prefix grammar  [E0 | E1] byte  (bit 7 of the byte = release; no F0 prefix).
   Same conventions as Set2Prefix: the model emits "none" for a swallowed prefix and "lookup" when a byte is
   looked up in the table selected by the pending prefix. *)
EXTENDS Naturals

VARIABLES table, out, run
Classes == {"E0", "E1", "code"}
Init == table = "plain" /\ out = "lookup" /\ run = 0

IsPrefix(c) == c \in {"E0", "E1"} /\ table = "plain"

Byte(c) ==
    IF IsPrefix(c)
    THEN table' = c /\ out' = "none" /\ run' = run + 1
    ELSE table' = "plain" /\ out' = "lookup" /\ run' = 0

Next == \E c \in Classes : Byte(c)
Spec == Init /\ [][Next]_<<table, out, run>>

TypeOK == table \in {"plain", "E0", "E1"} /\ out \in {"none", "lookup"} /\ run \in 0..2
ResyncAfterLookup == (out = "lookup") => (table = "plain")
PrefixChainBounded == run <= 1
=============================================================================
