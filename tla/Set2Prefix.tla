------------------------------ MODULE Set2Prefix ------------------------------
(* Independent re-specification of the Scancode Set 2 prefix grammar
       [E0 | E1] [F0] code
   as used by property C01/C07 (and, with F0 removed and bit 7 as the release flag, Set 1).
   The model knows nothing about key tables: a byte is classified as one of the three prefix bytes or as an
   ordinary "code"; when a code arrives the model emits a LOOKUP request naming the table and the release flag.
   TLC explores the complete state graph (6 states) and checks the C07 facts on the model; the harness then
   replays EVERY edge of the dumped graph against the real decoder for EVERY concrete byte of the edge's class
   (conformance), so the real code is shown to implement exactly this automaton. *)
EXTENDS Naturals

VARIABLES table,    \* "plain", "E0", "E1": which code table the pending prefix selects
          brk,      \* TRUE after F0
          out,      \* what the last byte produced: "none" (no event yet) or "lookup"
          run       \* number of consecutive "none" results

Classes == {"E0", "E1", "F0", "code"}
Init == table = "plain" /\ brk = FALSE /\ out = "lookup" /\ run = 0

\* a prefix byte is only a prefix in prefix position: E0/E1 at the very start, F0 before any other F0
IsPrefix(c) == \/ (c \in {"E0", "E1"} /\ table = "plain" /\ ~brk)
               \/ (c = "F0" /\ ~brk)

Byte(c) ==
    IF IsPrefix(c)
    THEN /\ table' = (IF c = "F0" THEN table ELSE c)
         /\ brk' = (c = "F0")
         /\ out' = "none"
         /\ run' = run + 1
    ELSE \* code position: any byte, including a prefix byte out of place, is looked up in `table`
         /\ table' = "plain" /\ brk' = FALSE /\ out' = "lookup" /\ run' = 0

Next == \E c \in Classes : Byte(c)
Spec == Init /\ [][Next]_<<table, brk, out, run>>

TypeOK == table \in {"plain", "E0", "E1"} /\ brk \in BOOLEAN /\ out \in {"none", "lookup"} /\ run \in 0..3
\* C07 on the model: after every completed sequence the automaton is in its initial condition ...
ResyncAfterLookup == (out = "lookup") => (table = "plain" /\ brk = FALSE)
\* ... and "no event yet" is never answered more than twice in a row
PrefixChainBounded == run <= 2
=============================================================================
