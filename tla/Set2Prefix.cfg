SPECIFICATION Spec
INVARIANT TypeOK
INVARIANT ResyncAfterLookup
INVARIANT PrefixChainBounded
