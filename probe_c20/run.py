#!/usr/bin/env python3
"""Engine C driver for C20.  usage: run.py build | check <quick|thorough>
Exit 0 held / 1 violation / 2 machinery failure (twin does not compile: API changed)."""
import json, os, re, subprocess, sys, time
HERE = os.path.dirname(os.path.abspath(__file__))
VERIF = os.environ.get("VERIF_DIR", os.path.dirname(HERE))
REPO = os.environ.get("VERIF_REPO", "/repo")
ALT = REPO != "/repo"
TARGET = os.path.join(VERIF, "target-alt-probe" if ALT else "target-probe")
ENV = dict(os.environ, CARGO_NET_OFFLINE="true", CARGO_TARGET_DIR=TARGET)
CFG = ["--config", 'paths=["%s"]' % REPO] if ALT else []

def cargo(args):
    p = subprocess.run(["cargo", "build", "--offline"] + CFG + args, cwd=HERE, env=ENV, capture_output=True, text=True)
    return p.returncode, p.stdout + p.stderr

def known_findings():
    out = {}
    try:
        for line in open(os.path.join(VERIF, "KNOWN_FINDINGS.txt")):
            line = line.strip()
            if line.startswith("finding:") and "property=C20" in line:
                m = re.search(r"key=(\S+)", line)
                if m:
                    out[m.group(1)] = line
    except OSError:
        pass
    return out

def main():
    mode = sys.argv[1] if len(sys.argv) > 1 else "check"
    tier = sys.argv[2] if len(sys.argv) > 2 else "quick"
    t0 = time.time()
    subprocess.run([sys.executable, os.path.join(HERE, "gen.py")], check=True, stdout=subprocess.DEVNULL)
    rc_twin, out_twin = cargo(["--features", "twin"])
    if mode == "build":
        if rc_twin != 0:
            print(out_twin)
            print("MACHINERY-ERROR: the C20 runtime twin does not build against", REPO)
            return 2
        cargo(["--features", "const_side"])
        cargo(["--bin", "runner", "--features", "const_side twin shared_add_word"])
        return 0
    if rc_twin != 0:
        print(out_twin)
        print("MACHINERY-ERROR: the runtime twin (ordinary function bodies making the same calls) does not compile against %s: the public API changed; this is not a C20 verdict" % REPO)
        return 2
    violations = []  # (key, text, replay path)
    os.makedirs(os.path.join(VERIF, "replays"), exist_ok=True)
    rc_c, out_c = cargo(["--features", "const_side"])
    configs = comparisons = assertions = 0
    mismatches = []
    runner_ran = False
    if rc_c != 0:
        path = os.path.join(VERIF, "replays", "C20-const-side-diagnostics.txt")
        errs = re.findall(r"^error(?:\[E\d+\])?: .*$", out_c, flags=re.M)
        with open(path, "w") as f:
            f.write("# pc-keyboard at %s: the runtime twin compiles, the const/static module does not.\n# reproduce: cd /verif/probe_c20 && cargo build --offline --features const_side\n\n" % REPO)
            f.write(out_c)
        violations.append(("const-side-does-not-compile", "the same constructor/accessor calls compile in function bodies but not in const/static items: " + "; ".join(errs[:4]), path))
    else:
        rc_r, out_r = cargo(["--bin", "runner", "--features", "const_side twin shared_add_word"])
        if rc_r != 0:
            # add_word may legitimately take `&mut self`: C20 does not say which methods work through a shared reference
            rc_r, out_r = cargo(["--bin", "runner", "--features", "const_side twin"])
        if rc_r != 0:
            print(out_r)
            print("MACHINERY-ERROR: the C20 runner does not build although both sides do")
            return 2
        p = subprocess.run([os.path.join(TARGET, "debug", "runner")], capture_output=True, text=True)
        runner_ran = "DONE" in p.stdout
        for line in p.stdout.splitlines():
            if line.startswith("CONFIGS "): configs = int(line.split()[1])
            elif line.startswith("COMPARISONS "): comparisons = int(line.split()[1])
            elif line.startswith("SEND_SYNC_ASSERTIONS "): assertions = int(line.split()[1])
            elif line.startswith("MISMATCH "): mismatches.append(line[9:])
        if not runner_ran:
            # every comparison runs under catch_unwind, so this is an abort of the process: not something C20 can judge
            print(p.stdout[-2000:] + p.stderr[-2000:])
            print("MACHINERY-ERROR: the C20 runner terminated abnormally (exit %s); not a C20 verdict" % p.returncode)
            return 2
        for i, mm in enumerate(mismatches):
            key = "runtime-mismatch/" + re.sub(r"[^A-Za-z0-9_.-]+", "_", mm)[:80]
            path = os.path.join(VERIF, "replays", "C20-mismatch-%d.json" % i)
            json.dump({"property": "C20", "key": key, "text": mm, "reproduce": "cd /verif/probe_c20 && cargo run --offline --bin runner --features 'const_side twin'"}, open(path, "w"), indent=1)
            violations.append((key, "const-built object behaves differently from its runtime-built twin: " + mm, path))
    known = known_findings()
    unlisted = []
    for key, text, path in violations:
        if key in known:
            print("KNOWN-FINDING: property=C20 key=%s %s" % (key, text))
        else:
            unlisted.append((key, text, path))
    for key, text, path in unlisted[:20]:
        print("VIOLATION property=C20 replay=%s" % path)
        print("  key=%s :: %s" % (key, text))
    n_items = 120 * 2 + 6 + 20 * 2 + 2 + 2 + 6 + 2 + 2 + 12
    ev = {
        "property_id": "C20", "tier": tier, "seed": int(os.environ.get("VERIF_SEED", "0") or 0), "level": "other",
        "coverage": {
            "explanation": "Exhaustive enumeration of a finite configuration family judged by rustc: 120 Keyboard configurations (10 layouts + 10 AnyLayout variants by value + 10 by reference) x 2 scancode sets x 2 modes, each as a const item AND a static item of a #![no_std] crate built without the hooks feature; const/static Ps2Decoder, ScancodeSet1/2, 20 EventDecoders, KeyEvent; const-evaluated get_modifiers/get_ctrl_handling; a 512-entry table of the five Modifiers predicates computed in a const fn loop; %d const assertions T: Send + Sync; a static Cell<Keyboard> as in the documented embedded idiom. A runtime twin makes the same calls in function bodies (if it does not compile the API changed: exit 2, no verdict). When both compile a runner checks that every const-built object behaves as its runtime-built twin on the exhaustive single-step alphabet (256 bytes, 2048 words, bits, 372 key events, mode switches) and that statics are readable from another thread." % assertions,
            "evaluations": max(1, comparisons + n_items), "distinct_nontrivial": max(2, configs + n_items),
            "rule": "a case is one const/static item accepted by rustc or one single-step comparison of a const-built object with its runtime-built twin; non-trivial/distinct = distinct configurations + distinct const/static items",
            "samples": ["pub static S_ANYREF_DE105KEY_SCANCODESET1_IGN: Keyboard<&'static AnyLayout, ScancodeSet1> = Keyboard::new(ScancodeSet1::new(), &ANYS_DE105KEY, HandleControl::Ignore);",
                        "pub const C_INIT_NUMLOCK: bool = C_US104KEY_SCANCODESET2_MAP.get_modifiers().numlock;",
                        "const _: () = assert_send_sync::<Keyboard<AnyLayout, ScancodeSet2>>();"],
            "exhaustive": True, "twin_compiles": rc_twin == 0, "const_side_compiles": rc_c == 0, "runner_completed": runner_ran,
            "configurations_compared_at_runtime": configs, "runtime_comparisons": comparisons, "send_sync_assertions": assertions,
            "const_and_static_items": n_items, "runtime_mismatches": len(mismatches),
            "checker_cmd": "cargo build --offline --features const_side (rustc %s)" % subprocess.run(["rustc", "--version"], capture_output=True, text=True).stdout.strip(),
            "trusted_base": ["rustc's type checker and const evaluator", "the configuration list in probe_c20/gen.py"],
            "violation_keys": [k for k, _, _ in unlisted],
        },
        "assumptions": ["built without the verif-hooks feature: the crate exactly as users get it", "`static` items additionally require Sync, so every static is also a Sync check"],
        "wall_s": time.time() - t0, "violations": len(unlisted),
    }
    os.makedirs(os.path.join(VERIF, "evidence"), exist_ok=True)
    json.dump(ev, open(os.path.join(VERIF, "evidence", "C20.json"), "w"), indent=1)
    print("summary property=C20 tier=%s configs=%d comparisons=%d send_sync_assertions=%d const_side_compiles=%s violations=%d wall_s=%.2f" % (tier, configs, comparisons, assertions, rc_c == 0, len(unlisted), time.time() - t0))
    return 1 if unlisted else 0

sys.exit(main())
