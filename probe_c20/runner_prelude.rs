//! Runtime part of the C20 probe: each const-built object must behave exactly like its
//! runtime-built twin on the exhaustive single-step alphabet, and the const-evaluated accessors /
//! predicate table must equal the runtime ones.
use pc_keyboard::*;
use probe_c20::const_side as c;
use probe_c20::twin as t;

#[no_mangle]
pub fn probe_c20_leak(l: pc_keyboard::layouts::AnyLayout) -> &'static pc_keyboard::layouts::AnyLayout {
    Box::leak(Box::new(l))
}

pub struct Report {
    pub comparisons: u64,
    pub configs: u64,
    pub mismatches: Vec<String>,
}

const KEYS: u8 = 124;
fn key(i: u8) -> KeyCode {
    // KeyCode is #[repr(u8)] with 124 consecutive variants; walk them without unsafe
    const ALL: [KeyCode; 124] = [
        KeyCode::Escape, KeyCode::F1, KeyCode::F2, KeyCode::F3, KeyCode::F4, KeyCode::F5, KeyCode::F6, KeyCode::F7, KeyCode::F8, KeyCode::F9, KeyCode::F10, KeyCode::F11, KeyCode::F12,
        KeyCode::PrintScreen, KeyCode::SysRq, KeyCode::ScrollLock, KeyCode::PauseBreak, KeyCode::Oem8, KeyCode::Key1, KeyCode::Key2, KeyCode::Key3, KeyCode::Key4, KeyCode::Key5,
        KeyCode::Key6, KeyCode::Key7, KeyCode::Key8, KeyCode::Key9, KeyCode::Key0, KeyCode::OemMinus, KeyCode::OemPlus, KeyCode::Backspace, KeyCode::Insert, KeyCode::Home, KeyCode::PageUp,
        KeyCode::NumpadLock, KeyCode::NumpadDivide, KeyCode::NumpadMultiply, KeyCode::NumpadSubtract, KeyCode::Tab, KeyCode::Q, KeyCode::W, KeyCode::E, KeyCode::R, KeyCode::T, KeyCode::Y,
        KeyCode::U, KeyCode::I, KeyCode::O, KeyCode::P, KeyCode::Oem4, KeyCode::Oem6, KeyCode::Oem5, KeyCode::Oem7, KeyCode::Delete, KeyCode::End, KeyCode::PageDown, KeyCode::Numpad7,
        KeyCode::Numpad8, KeyCode::Numpad9, KeyCode::NumpadAdd, KeyCode::CapsLock, KeyCode::A, KeyCode::S, KeyCode::D, KeyCode::F, KeyCode::G, KeyCode::H, KeyCode::J, KeyCode::K, KeyCode::L,
        KeyCode::Oem1, KeyCode::Oem3, KeyCode::Return, KeyCode::Numpad4, KeyCode::Numpad5, KeyCode::Numpad6, KeyCode::LShift, KeyCode::Z, KeyCode::X, KeyCode::C, KeyCode::V, KeyCode::B,
        KeyCode::N, KeyCode::M, KeyCode::OemComma, KeyCode::OemPeriod, KeyCode::Oem2, KeyCode::RShift, KeyCode::ArrowUp, KeyCode::Numpad1, KeyCode::Numpad2, KeyCode::Numpad3,
        KeyCode::NumpadEnter, KeyCode::LControl, KeyCode::LWin, KeyCode::LAlt, KeyCode::Spacebar, KeyCode::RAltGr, KeyCode::RWin, KeyCode::Apps, KeyCode::RControl, KeyCode::ArrowLeft,
        KeyCode::ArrowDown, KeyCode::ArrowRight, KeyCode::Numpad0, KeyCode::NumpadPeriod, KeyCode::Oem9, KeyCode::Oem10, KeyCode::Oem11, KeyCode::Oem12, KeyCode::Oem13, KeyCode::PrevTrack,
        KeyCode::NextTrack, KeyCode::Mute, KeyCode::Calculator, KeyCode::Play, KeyCode::Stop, KeyCode::VolumeDown, KeyCode::VolumeUp, KeyCode::WWWHome, KeyCode::PowerOnTestOk,
        KeyCode::TooManyKeys, KeyCode::RControl2, KeyCode::RAlt2,
    ];
    ALL[i as usize]
}
const STATES: [KeyState; 3] = [KeyState::Down, KeyState::Up, KeyState::SingleShot];

fn obs<L: KeyboardLayout, S: ScancodeSet>(k: &Keyboard<L, S>) -> String {
    format!("mods={} ignore={}", t::mods_bits(k.get_modifiers()), matches!(k.get_ctrl_handling(), HandleControl::Ignore))
}

/// Run the same script on a const-built and on a runtime-built object, each under catch_unwind: equal
/// transcripts, or a panic on both sides, count as "same" (a panic of the subject is C08's business).
fn same<T>(mk_c: fn() -> T, mk_t: fn() -> T, f: &dyn Fn(&mut T) -> String) -> bool {
    let x = std::panic::catch_unwind(std::panic::AssertUnwindSafe(|| {
        let mut a = mk_c();
        f(&mut a)
    }));
    let y = std::panic::catch_unwind(std::panic::AssertUnwindSafe(|| {
        let mut b = mk_t();
        f(&mut b)
    }));
    match (x, y) {
        (Ok(p), Ok(q)) => p == q,
        (Err(_), Err(_)) => true,
        _ => false,
    }
}

/// every single-step operation on a fresh const-built object vs a fresh runtime-built one
pub fn cmp_kb<L: KeyboardLayout, S: ScancodeSet>(r: &mut Report, name: &str, mk_c: fn() -> Keyboard<L, S>, mk_t: fn() -> Keyboard<L, S>) {
    r.configs += 1;
    let mut check = |r: &mut Report, what: String, f: &dyn Fn(&mut Keyboard<L, S>) -> String| {
        r.comparisons += 1;
        if !same(mk_c, mk_t, f) && r.mismatches.len() < 50 {
            r.mismatches.push(format!("{}: {}", name, what));
        }
    };
    check(r, "initial modifiers/mode differ".into(), &|k| obs(k));
    for byte in 0..=255u8 {
        // one more step observes the state the first left behind
        check(r, format!("add_byte({:#04x}) [then add_byte(0x1c)] differs", byte), &|k| format!("{:?} {:?}", k.add_byte(byte), k.add_byte(0x1C)));
    }
    for w in 0..2048u16 {
        check(r, format!("add_word({:#05x}) differs", w), &|k| format!("{:?}", k.add_word(w)));
    }
    for bit in [false, true] {
        check(r, format!("add_bit sequence starting with {} differs", bit), &|k| {
            let mut out = format!("{:?}", k.add_bit(bit));
            for i in 0..10 {
                out.push_str(&format!("{:?}", k.add_bit(i % 2 == 0 || i == 9)));
            }
            k.clear();
            out
        });
    }
    for ki in 0..KEYS {
        for st in STATES {
            check(r, format!("process_keyevent({:?} {:?}) [then Q Down] differs", key(ki), st), &|k| {
                let a = k.process_keyevent(KeyEvent::new(key(ki), st));
                let o = obs(k);
                // a following ordinary key shows what the layout is given
                let b = k.process_keyevent(KeyEvent::new(KeyCode::Q, KeyState::Down));
                format!("{:?} {} {:?}", a, o, b)
            });
        }
    }
    for mode in [HandleControl::Ignore, HandleControl::MapLettersToUnicode] {
        check(r, "set_ctrl_handling differs".to_string(), &|k| {
            k.set_ctrl_handling(mode);
            obs(k)
        });
    }
}

pub fn cmp_ed<L: KeyboardLayout>(r: &mut Report, name: &str, mk_c: fn() -> EventDecoder<L>, mk_t: fn() -> EventDecoder<L>) {
    r.configs += 1;
    for ki in 0..KEYS {
        for st in STATES {
            r.comparisons += 1;
            let f = |d: &mut EventDecoder<L>| {
                let x = d.process_keyevent(KeyEvent::new(key(ki), st));
                let y = d.process_keyevent(KeyEvent::new(KeyCode::Numpad7, KeyState::Down));
                format!("{:?} {:?} {}", x, y, matches!(d.get_ctrl_handling(), HandleControl::Ignore))
            };
            if !same(mk_c, mk_t, &f) && r.mismatches.len() < 50 {
                r.mismatches.push(format!("{}: process_keyevent({:?} {:?}) differs", name, key(ki), st));
            }
        }
    }
}

pub fn cmp_stages(r: &mut Report) {
    r.configs += 3;
    let mut bad = |r: &mut Report, s: String| {
        if r.mismatches.len() < 50 {
            r.mismatches.push(s);
        }
    };
    for w in 0..=u16::MAX {
        r.comparisons += 1;
        if !same(c::c_ps2, t::t_ps2, &|d| format!("{:?}", d.add_word(w))) {
            bad(r, format!("Ps2Decoder::add_word({:#06x}) differs", w));
        }
        // through a shared reference to the static - only if add_word takes `&self` (C20 does not demand that it does)
        #[cfg(feature = "shared_add_word")]
        if !same(c::c_ps2, t::t_ps2, &|d| format!("{:?} {:?}", d.add_word(w), c::S_PS2.add_word(w))) {
            bad(r, format!("Ps2Decoder::add_word({:#06x}) on the static differs", w));
        }
    }
    for first in 0..2048u16 {
        r.comparisons += 1;
        if !same(c::c_ps2, t::t_ps2, &|d| {
            let mut out = String::new();
            for i in 0..11 {
                out.push_str(&format!("{:?}", d.add_bit((first >> i) & 1 != 0)));
            }
            out
        }) {
            bad(r, format!("Ps2Decoder bit-serial frame {:#05x} differs", first));
        }
    }
    for b1 in 0..=255u8 {
        for b2 in [0x1Cu8, 0xF0, 0x9C] {
            r.comparisons += 2;
            if !same(c::c_set1, t::t_set1, &|d| format!("{:?} {:?}", d.advance_state(b1), d.advance_state(b2))) {
                bad(r, format!("ScancodeSet1 {:#04x} {:#04x} differs", b1, b2));
            }
            if !same(c::c_set2, t::t_set2, &|d| format!("{:?} {:?}", d.advance_state(b1), d.advance_state(b2))) {
                bad(r, format!("ScancodeSet2 {:#04x} {:#04x} differs", b1, b2));
            }
        }
    }
    // const-evaluated accessors and the predicate table
    r.comparisons += 9;
    if !c::R_MODS_NUMLOCK || !c::R_MODS.numlock {
        bad(r, "references to const-built objects give wrong values".into());
    }
    #[cfg(feature = "shared_add_word")]
    if c::R_PS2.add_word(0x0402) != t::t_ps2().add_word(0x0402) || c::SR_PS2.add_word(0x0402) != Ok(0x01) {
        bad(r, "references to const-built objects give wrong values".into());
    }
    if c::C_PRED_TABLE != t::pred_table() || c::S_PRED_TABLE != t::pred_table() {
        bad(r, "const-evaluated predicate table differs from the runtime one".into());
    }
    if !c::C_INIT_NUMLOCK || c::C_INIT_MODS_BITS != t::mods_bits(t::t_any_azerty_scancodeset1_ign().get_modifiers()) {
        bad(r, "const-evaluated get_modifiers() differs from runtime".into());
    }
    if !(c::C_MODE_IS_MAP && c::C_MODE_IS_IGN && c::C_ED_MODE_IS_IGN && c::C_ED_MODE_IS_MAP) {
        bad(r, "const-evaluated get_ctrl_handling() differs from the constructor argument".into());
    }
    if c::c_event() != t::t_event() || c::S_EVENT != KeyEvent::new(KeyCode::PauseBreak, KeyState::SingleShot) {
        bad(r, "const-built KeyEvent differs".into());
    }
    // the statics are usable through shared references from another thread (Send + Sync in action)
    #[cfg(feature = "shared_add_word")]
    let h = std::thread::spawn(|| (c::S_US104KEY_SCANCODESET2_MAP.get_modifiers().numlock, std::panic::catch_unwind(|| c::S_PS2.add_word(0x0402)).ok()));
    #[cfg(not(feature = "shared_add_word"))]
    let h = std::thread::spawn(|| (c::S_US104KEY_SCANCODESET2_MAP.get_modifiers().numlock, Some(t::t_ps2().add_word(0x0402))));
    let (nl, w) = h.join().unwrap();
    r.comparisons += 1;
    if !nl || (w.is_some() && w != Some(t::t_ps2().add_word(0x0402))) {
        bad(r, "static Keyboard / Ps2Decoder read from another thread gives wrong values".into());
    }
}

fn main() {
    std::panic::set_hook(Box::new(|_| {}));
    let mut r = Report { comparisons: 0, configs: 0, mismatches: vec![] };
    run_all(&mut r);
    println!("CONFIGS {}", r.configs);
    println!("COMPARISONS {}", r.comparisons);
    println!("SEND_SYNC_ASSERTIONS {}", c::N_SEND_SYNC_ASSERTIONS);
    for m in &r.mismatches {
        println!("MISMATCH {}", m);
    }
    println!("DONE");
}
