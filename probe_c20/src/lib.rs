//! C20 probe: every public constructor / const accessor of pc-keyboard instantiated in `const`
//! and `static` items of a `#![no_std]` crate (module `const_side`), and the same calls made in
//! ordinary function bodies (module `twin`). rustc's type and const checker is the judge.
#![no_std]

#[cfg(feature = "const_side")]
pub mod const_side;
#[cfg(feature = "twin")]
pub mod twin;
